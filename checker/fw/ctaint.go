package fw

import (
	"go/token"
	"go/types"

	"golang.org/x/tools/go/ssa"
)

// ConstTaint is a forward, inter-procedural taint of "these constant strings, or a collection /
// record that holds them" from the functions of a region into the parameters, receivers and free
// variables of the repository functions they reach through static calls and closures. It
// answers one question: does a list of member names that one routine applies to the top level of
// a document travel into a routine that applies itself to nested values (a recursive descent)?
type ConstTaint struct {
	Funcs   map[*ssa.Function]bool          // every function visited
	Tainted map[*ssa.Function]map[ssa.Value]bool // tainted values per function
	Edges   map[*ssa.Function][]*ssa.Function // static call / closure edges among visited functions
	want    map[string]bool
	pkg     *ssa.Package
	lists   map[*ssa.Global]bool
	retT    map[*ssa.Function]bool
	work    []*ssa.Function
	inWork  map[*ssa.Function]bool
}

// NewConstTaint runs the taint from root (its own constants, and package-level string lists that
// contain a wanted name) to a fixed point. Only functions of root's package are entered.
func NewConstTaint(root *ssa.Function, want map[string]bool) *ConstTaint {
	t := &ConstTaint{Funcs: map[*ssa.Function]bool{}, Tainted: map[*ssa.Function]map[ssa.Value]bool{}, Edges: map[*ssa.Function][]*ssa.Function{}, want: want, pkg: root.Pkg, lists: map[*ssa.Global]bool{}, retT: map[*ssa.Function]bool{}, inWork: map[*ssa.Function]bool{}}
	for g, l := range globalStringLists {
		for _, s := range l {
			if want[s] {
				t.lists[g] = true
			}
		}
	}
	t.push(root)
	for len(t.work) > 0 {
		f := t.work[len(t.work)-1]
		t.work = t.work[:len(t.work)-1]
		t.inWork[f] = false
		t.run(f)
	}
	return t
}

func (t *ConstTaint) push(f *ssa.Function) {
	if f == nil || len(f.Blocks) == 0 || t.inWork[f] {
		return
	}
	t.inWork[f] = true
	t.work = append(t.work, f)
}

func (t *ConstTaint) pkgOf(f *ssa.Function) *ssa.Package {
	for f.Parent() != nil {
		f = f.Parent()
	}
	if o := f.Origin(); o != nil {
		f = o
	}
	return f.Pkg
}

func (t *ConstTaint) mark(f *ssa.Function, v ssa.Value) bool {
	m := t.Tainted[f]
	if m == nil {
		m = map[ssa.Value]bool{}
		t.Tainted[f] = m
	}
	if m[v] {
		return false
	}
	m[v] = true
	return true
}

func (t *ConstTaint) is(f *ssa.Function, v ssa.Value) bool {
	if c, ok := v.(*ssa.Const); ok {
		if s, isS := ConstString(c); isS && t.want[s] {
			return true
		}
		return false
	}
	if g, ok := v.(*ssa.Global); ok {
		return t.lists[g]
	}
	return t.Tainted[f][v]
}

func (t *ConstTaint) addEdge(from, to *ssa.Function) {
	for _, e := range t.Edges[from] {
		if e == to {
			return
		}
	}
	t.Edges[from] = append(t.Edges[from], to)
}

func (t *ConstTaint) run(f *ssa.Function) {
	first := !t.Funcs[f]
	t.Funcs[f] = true
	for changed := true; changed; {
		changed = false
		for _, b := range f.Blocks {
			for _, ins := range b.Instrs {
				switch x := ins.(type) {
				case *ssa.Store:
					if t.is(f, x.Val) {
						// the place written, and what it is a part of
						for a := x.Addr; a != nil; {
							if _, isG := a.(*ssa.Global); isG {
								break
							}
							if t.mark(f, a) {
								changed = true
							}
							switch y := a.(type) {
							case *ssa.IndexAddr:
								a = y.X
							case *ssa.FieldAddr:
								a = y.X
							default:
								a = nil
							}
						}
					}
				case *ssa.MapUpdate:
					if t.is(f, x.Key) || t.is(f, x.Value) {
						if t.mark(f, x.Map) {
							changed = true
						}
					}
				case ssa.Value:
					hit := false
					switch y := x.(type) {
					case *ssa.Phi:
						for _, e := range y.Edges {
							hit = hit || t.is(f, e)
						}
					case *ssa.UnOp:
						hit = (y.Op == token.MUL || y.Op == token.ARROW) && t.is(f, y.X)
					case *ssa.Slice:
						hit = t.is(f, y.X)
					case *ssa.FieldAddr:
						hit = t.is(f, y.X)
					case *ssa.Field:
						hit = t.is(f, y.X)
					case *ssa.IndexAddr:
						hit = t.is(f, y.X)
					case *ssa.Index:
						hit = t.is(f, y.X)
					case *ssa.Lookup:
						hit = t.is(f, y.X)
					case *ssa.Range:
						hit = t.is(f, y.X)
					case *ssa.Next:
						hit = t.is(f, y.Iter)
					case *ssa.Extract:
						hit = t.is(f, y.Tuple)
					case *ssa.MakeInterface:
						hit = t.is(f, y.X)
					case *ssa.ChangeType:
						hit = t.is(f, y.X)
					case *ssa.ChangeInterface:
						hit = t.is(f, y.X)
					case *ssa.Convert:
						hit = t.is(f, y.X)
					case *ssa.TypeAssert:
						hit = t.is(f, y.X)
					case *ssa.MakeClosure:
						if fn, ok := y.Fn.(*ssa.Function); ok {
							t.addEdge(f, fn)
							if !t.Funcs[fn] {
								t.push(fn)
							}
							for i, bv := range y.Bindings {
								if t.is(f, bv) && i < len(fn.FreeVars) && t.mark(fn, fn.FreeVars[i]) {
									t.push(fn)
								}
							}
						}
					case *ssa.Call:
						hit = t.call(f, y)
					}
					if hit && t.mark(f, x) {
						changed = true
					}
				case *ssa.Go:
					t.callCommon(f, x.Common())
				case *ssa.Defer:
					t.callCommon(f, x.Common())
				case *ssa.Return:
					for _, r := range x.Results {
						if t.is(f, r) && !t.retT[f] {
							t.retT[f] = true
							// callers have to look again
							for g := range t.Funcs {
								for _, e := range t.Edges[g] {
									if e == f {
										t.push(g)
									}
								}
							}
						}
					}
				}
			}
		}
	}
	_ = first
}

func (t *ConstTaint) call(f *ssa.Function, c *ssa.Call) bool {
	callee := t.callCommon(f, c.Common())
	if callee != nil {
		return t.retT[callee]
	}
	// append(list, names...) and friends keep what they are given
	if b, ok := c.Common().Value.(*ssa.Builtin); ok && b.Name() == "append" {
		for _, a := range c.Common().Args {
			if t.is(f, a) {
				return true
			}
		}
	}
	return false
}

func (t *ConstTaint) callCommon(f *ssa.Function, cc *ssa.CallCommon) *ssa.Function {
	callee := cc.StaticCallee()
	if callee == nil {
		// a closure held in a local variable
		if mc, ok := Unwrap(cc.Value).(*ssa.MakeClosure); ok {
			callee, _ = mc.Fn.(*ssa.Function)
		}
	}
	if callee == nil || len(callee.Blocks) == 0 || t.pkgOf(callee) != t.pkgOf(f) {
		return nil
	}
	t.addEdge(f, callee)
	if !t.Funcs[callee] {
		t.push(callee)
	}
	for i, a := range cc.Args {
		if i < len(callee.Params) && t.is(f, a) && t.mark(callee, callee.Params[i]) {
			t.push(callee)
		}
	}
	return callee
}

// Recursive reports whether f can reach itself over the recorded edges.
func (t *ConstTaint) Recursive(f *ssa.Function) bool {
	seen := map[*ssa.Function]bool{}
	var walk func(g *ssa.Function) bool
	walk = func(g *ssa.Function) bool {
		for _, e := range t.Edges[g] {
			if e == f {
				return true
			}
			if !seen[e] {
				seen[e] = true
				if walk(e) {
					return true
				}
			}
		}
		return false
	}
	return walk(f)
}

// TaintedInputs lists the parameters and free variables of f that carry the names.
func (t *ConstTaint) TaintedInputs(f *ssa.Function) []ssa.Value {
	var out []ssa.Value
	for _, p := range f.Params {
		if t.Tainted[f][p] {
			out = append(out, p)
		}
	}
	for _, fv := range f.FreeVars {
		if t.Tainted[f][fv] {
			out = append(out, fv)
		}
	}
	return out
}

// HasCounterParam: f has an integer parameter that some call of f inside the visited functions
// sets to an arithmetic expression (a depth counter): what f does may differ per level.
func (t *ConstTaint) HasCounterParam(f *ssa.Function) bool {
	for g := range t.Funcs {
		for _, call := range Calls(g) {
			if call.Common().StaticCallee() != f {
				continue
			}
			for i, a := range call.Common().Args {
				if i >= len(f.Params) {
					break
				}
				if bt, ok := f.Params[i].Type().Underlying().(*types.Basic); ok && bt.Info()&(types.IsInteger|types.IsBoolean) != 0 {
					switch a.(type) {
					case *ssa.BinOp, *ssa.Const:
						if _, isC := a.(*ssa.Const); isC && g == f {
							return true
						}
						if _, isB := a.(*ssa.BinOp); isB {
							return true
						}
					}
				}
			}
		}
	}
	return false
}
