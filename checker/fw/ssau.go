package fw

import (
	"go/constant"
	"go/token"
	"go/types"
	"sort"
	"strings"

	"golang.org/x/tools/go/ssa"
)

// Short abbreviates the module path in a qualified name: "gmsl.X", "gmsl/spec.Y".
func Short(s string) string {
	return strings.ReplaceAll(s, ModPath, "gmsl")
}

// CalleeName names the callee of a call: static functions and methods by their
// types.Func full name, interface calls by the interface method's full name,
// closures by "<parent>$n", everything else "" (dynamic call of a func value).
func CalleeName(c ssa.CallInstruction) string {
	cc := c.Common()
	if cc.IsInvoke() {
		return Short(cc.Method.FullName())
	}
	if fn := cc.StaticCallee(); fn != nil {
		return FuncName(fn)
	}
	if b, ok := cc.Value.(*ssa.Builtin); ok {
		return "builtin." + b.Name()
	}
	// a method value or function literal converted to a named function type and called
	// (`redact := redactionFunc(v.RedactEventJSON); redact(x)`)
	v := cc.Value
	for {
		if ct, ok := v.(*ssa.ChangeType); ok {
			v = ct.X
			continue
		}
		break
	}
	if mc, ok := v.(*ssa.MakeClosure); ok {
		if f, isF := mc.Fn.(*ssa.Function); isF {
			return strings.TrimSuffix(FuncName(f), "$bound")
		}
	}
	return ""
}

// FuncName names an SSA function.
func FuncName(fn *ssa.Function) string {
	if fn == nil {
		return ""
	}
	if o := fn.Origin(); o != nil && o != fn {
		fn = o
	}
	if obj := fn.Object(); obj != nil {
		if f, ok := obj.(*types.Func); ok {
			return Short(f.FullName())
		}
	}
	return Short(fn.String())
}

// Unwrap strips value-preserving wrappers (interface/type changes, same-kind conversions).
func Unwrap(v ssa.Value) ssa.Value {
	for {
		switch x := v.(type) {
		case *ssa.ChangeInterface:
			v = x.X
		case *ssa.ChangeType:
			v = x.X
		case *ssa.MakeInterface:
			v = x.X
		case *ssa.Convert:
			v = x.X
		default:
			return v
		}
	}
}

// UnwrapIface strips only interface-to-interface changes (nil-ness preserving).
func UnwrapIface(v ssa.Value) ssa.Value {
	for {
		switch x := v.(type) {
		case *ssa.ChangeInterface:
			v = x.X
		default:
			return v
		}
	}
}

// CallOf returns the call that produced v (directly or through Extract), and the result index.
func CallOf(v ssa.Value) (ssa.CallInstruction, int) {
	v = UnwrapIface(v)
	switch x := v.(type) {
	case *ssa.Call:
		return x, 0
	case *ssa.Extract:
		if c, ok := x.Tuple.(*ssa.Call); ok {
			return c, x.Index
		}
	}
	return nil, -1
}

// LoadOrigin resolves a load from a local Alloc to the value most recently stored to it
// in the same block before the load (the idiom produced by spilled named results and
// variables captured by closures). Returns v unchanged when that does not apply.
func LoadOrigin(v ssa.Value) ssa.Value {
	u, ok := v.(*ssa.UnOp)
	if !ok || u.Op != token.MUL {
		return v
	}
	addr := u.X
	switch addr.(type) {
	case *ssa.Alloc, *ssa.FreeVar:
	default:
		return v
	}
	b := u.Block()
	var last ssa.Value
	for _, ins := range b.Instrs {
		if ins == ssa.Instruction(u) {
			break
		}
		if st, ok := ins.(*ssa.Store); ok && st.Addr == addr {
			last = st.Val
		}
	}
	if last != nil {
		return last
	}
	return v
}

// Origin = LoadOrigin + UnwrapIface, repeated.
func Origin(v ssa.Value) ssa.Value {
	for i := 0; i < 8; i++ {
		n := UnwrapIface(LoadOrigin(UnwrapIface(v)))
		if n == v {
			return v
		}
		v = n
	}
	return v
}

func isNilConst(v ssa.Value) bool {
	c, ok := v.(*ssa.Const)
	return ok && c.Value == nil && !isBasicNonPointer(c.Type())
}

func isBasicNonPointer(t types.Type) bool {
	b, ok := t.Underlying().(*types.Basic)
	if !ok {
		return false
	}
	return b.Kind() != types.UnsafePointer && b.Kind() != types.UntypedNil
}

// NilCheck parses "v == nil" / "v != nil" (either operand order); trueMeansNil tells
// which branch of an If on cond has v == nil.
func NilCheck(cond ssa.Value) (v ssa.Value, trueMeansNil bool, ok bool) {
	neg := false
	for {
		u, isU := cond.(*ssa.UnOp)
		if !isU || u.Op != token.NOT {
			break
		}
		neg = !neg
		cond = u.X
	}
	b, isB := cond.(*ssa.BinOp)
	if !isB || (b.Op != token.EQL && b.Op != token.NEQ) {
		return nil, false, false
	}
	var other ssa.Value
	switch {
	case isNilConst(b.Y):
		other = b.X
	case isNilConst(b.X):
		other = b.Y
	default:
		return nil, false, false
	}
	t := b.Op == token.EQL
	if neg {
		t = !t
	}
	return other, t, true
}

// BoolCond strips negations: cond == (negated ? !v : v).
func BoolCond(cond ssa.Value) (v ssa.Value, negated bool) {
	for {
		u, ok := cond.(*ssa.UnOp)
		if !ok || u.Op != token.NOT {
			return cond, negated
		}
		negated = !negated
		cond = u.X
	}
}

// Edge is a CFG edge.
type Edge struct{ From, To *ssa.BasicBlock }

// IfEdge returns the edge taken when the If terminating block b evaluates to val.
func IfEdge(b *ssa.BasicBlock, val bool) Edge {
	if val {
		return Edge{b, b.Succs[0]}
	}
	return Edge{b, b.Succs[1]}
}

// Ifs lists the If instructions of fn in block order.
func Ifs(fn *ssa.Function) []*ssa.If {
	var out []*ssa.If
	for _, b := range fn.Blocks {
		if len(b.Instrs) == 0 {
			continue
		}
		if i, ok := b.Instrs[len(b.Instrs)-1].(*ssa.If); ok {
			out = append(out, i)
		}
	}
	return out
}

// Reachable computes the blocks reachable from entry without crossing removed edges.
// Note: when an If has both successors equal, the edge identity is ambiguous; such
// degenerate Ifs are not produced for the guards we match.
func Reachable(fn *ssa.Function, removed map[Edge]bool) map[*ssa.BasicBlock]bool {
	if len(fn.Blocks) == 0 {
		return map[*ssa.BasicBlock]bool{}
	}
	return reachEdges(fn.Blocks[0], removed)
}

// ReachableFrom computes blocks reachable from start (inclusive) without removed edges.
// Both searches are edge-sensitive at blocks that branch on a phi they define (thread.go).
func ReachableFrom(start *ssa.BasicBlock, removed map[Edge]bool) map[*ssa.BasicBlock]bool {
	return reachEdges(start, removed)
}

// Returns lists the Return instructions of fn.
func Returns(fn *ssa.Function) []*ssa.Return {
	var out []*ssa.Return
	for _, b := range fn.Blocks {
		for _, ins := range b.Instrs {
			if r, ok := ins.(*ssa.Return); ok {
				out = append(out, r)
			}
		}
	}
	return out
}

// Calls lists the call instructions (call, go, defer) of fn, in block order.
func Calls(fn *ssa.Function) []ssa.CallInstruction {
	var out []ssa.CallInstruction
	for _, b := range fn.Blocks {
		for _, ins := range b.Instrs {
			if c, ok := ins.(ssa.CallInstruction); ok {
				out = append(out, c)
			}
		}
	}
	return out
}

// CallsTo lists calls in fn (optionally including its anonymous functions) whose callee name matches.
func CallsTo(fn *ssa.Function, withAnon bool, match func(name string) bool) []ssa.CallInstruction {
	var out []ssa.CallInstruction
	var visit func(f *ssa.Function)
	visit = func(f *ssa.Function) {
		for _, c := range Calls(f) {
			if match(CalleeName(c)) {
				out = append(out, c)
			}
		}
		if withAnon {
			for _, a := range f.AnonFuncs {
				visit(a)
			}
		}
	}
	visit(fn)
	return out
}

// NameIs builds a matcher for an exact callee name (after Short()).
func NameIs(names ...string) func(string) bool {
	return func(n string) bool {
		for _, x := range names {
			if n == x {
				return true
			}
		}
		return false
	}
}

// ConstString returns the string value of a constant SSA value.
func ConstString(v ssa.Value) (string, bool) {
	v = Unwrap(v)
	c, ok := v.(*ssa.Const)
	if !ok || c.Value == nil || c.Value.Kind() != constant.String {
		return "", false
	}
	return constant.StringVal(c.Value), true
}

// ConstInt returns the integer value of a constant SSA value.
func ConstInt(v ssa.Value) (int64, bool) {
	v = Unwrap(v)
	c, ok := v.(*ssa.Const)
	if !ok || c.Value == nil {
		return 0, false
	}
	if c.Value.Kind() != constant.Int {
		return 0, false
	}
	i, exact := constant.Int64Val(c.Value)
	return i, exact
}

// ErrIndex returns the index of the trailing error result of fn, or -1.
func ErrIndex(fn *ssa.Function) int {
	res := fn.Signature.Results()
	if res.Len() == 0 {
		return -1
	}
	last := res.At(res.Len() - 1).Type()
	if types.Identical(last, types.Universe.Lookup("error").Type()) {
		return res.Len() - 1
	}
	return -1
}

// Dominates reports whether a dominates b.
func Dominates(a, b *ssa.BasicBlock) bool { return a.Dominates(b) }

// BlockOfEdgeTarget reports whether the edge e is the only way into e.To (so facts on the edge hold in e.To).
func soleEntry(e Edge) bool { return len(e.To.Preds) == 1 }

// KnownNonNil: is v known to be non-nil in block b because a dominating If tested it?
func KnownNonNil(v ssa.Value, b *ssa.BasicBlock) bool {
	return knownNil(v, b, false)
}

// KnownNil: is v known to be nil in block b?
func KnownNil(v ssa.Value, b *ssa.BasicBlock) bool {
	return knownNil(v, b, true)
}

func knownNil(v ssa.Value, b *ssa.BasicBlock, wantNil bool) bool {
	ov := Origin(v)
	for d := b; d != nil; d = d.Idom() {
		id := d.Idom()
		if id == nil {
			break
		}
		if len(id.Instrs) == 0 {
			continue
		}
		iff, ok := id.Instrs[len(id.Instrs)-1].(*ssa.If)
		if !ok {
			continue
		}
		cv, trueMeansNil, ok := NilCheck(iff.Cond)
		if !ok {
			continue
		}
		if Origin(cv) != ov && cv != v && !sameLoad(cv, v) {
			continue
		}
		// which successor of id leads (exclusively) to d?
		for i, s := range id.Succs {
			if s != d || len(d.Preds) != 1 {
				continue
			}
			branchTrue := i == 0
			isNil := branchTrue == trueMeansNil
			if isNil == wantNil {
				return true
			}
		}
	}
	return false
}

// SortedBlocks returns the keys of a block set ordered by index.
func SortedBlocks(m map[*ssa.BasicBlock]bool) []*ssa.BasicBlock {
	out := make([]*ssa.BasicBlock, 0, len(m))
	for b := range m {
		out = append(out, b)
	}
	sort.Slice(out, func(i, j int) bool { return out[i].Index < out[j].Index })
	return out
}

// InstrPos finds a usable position for an instruction (falling back to neighbours).
func InstrPos(ins ssa.Instruction) token.Pos {
	if ins == nil {
		return token.NoPos
	}
	if p := ins.Pos(); p.IsValid() {
		return p
	}
	if v, ok := ins.(ssa.Value); ok {
		_ = v
	}
	b := ins.Block()
	if b == nil {
		return token.NoPos
	}
	idx := -1
	for i, x := range b.Instrs {
		if x == ins {
			idx = i
			break
		}
	}
	for i := idx; i >= 0; i-- {
		if p := b.Instrs[i].Pos(); p.IsValid() {
			return p
		}
	}
	for i := idx + 1; i < len(b.Instrs) && i >= 0; i++ {
		if p := b.Instrs[i].Pos(); p.IsValid() {
			return p
		}
	}
	if fn := b.Parent(); fn != nil {
		return fn.Pos()
	}
	return token.NoPos
}

// sameLoad: two loads of the same field/element address expression (equal structural
// signature); used for the `if x.f != nil { return x.f }` idiom where the compiler emits
// two loads. Assumes no intervening write, which holds for the guard/return idiom.
func sameLoad(a, b ssa.Value) bool {
	ua, ok1 := a.(*ssa.UnOp)
	ub, ok2 := b.(*ssa.UnOp)
	if !ok1 || !ok2 || ua.Op != token.MUL || ub.Op != token.MUL {
		return false
	}
	switch ua.X.(type) {
	case *ssa.FieldAddr, *ssa.IndexAddr:
	default:
		return false
	}
	return Sig(ua.X) == Sig(ub.X)
}

// IsSyntheticPanic: the panic was emitted by the SSA builder for the protocol of a
// range-over-func loop (iterator misuse checks), not written in the source.
func IsSyntheticPanic(pn *ssa.Panic) bool {
	if strings.HasPrefix(pn.Block().Comment, "rangefunc") {
		return true
	}
	if mi, ok := pn.X.(*ssa.MakeInterface); ok {
		if s, isS := ConstString(mi.X); isS && (strings.Contains(s, "iterator call did not preserve panic") || strings.Contains(s, "yield function called after range loop exit")) {
			return true
		}
	}
	return false
}
