package fw

import (
	"encoding/json"
	"fmt"
	"os"
	"path/filepath"
	"sort"
	"strings"
	"time"

	"golang.org/x/tools/go/callgraph"
)

// Verdicts of one obligation.
const (
	Discharged = "discharged"
	Violation  = "violation"
	Undecided  = "undecided"
	Known      = "known-finding"
)

// Obligation is one rule instance evaluated on the current tree.
type Obligation struct {
	Rule      string `json:"rule"`      // e.g. "C01.1 gate"
	Construct string `json:"construct"` // stable, position-free key of the instance
	Pos       string `json:"pos,omitempty"`
	Verdict   string `json:"verdict"`
	Detail    string `json:"detail,omitempty"`
}

// Finding is an entry of /verif/known_findings.json.
type Finding struct {
	Property  string `json:"property"`
	Rule      string `json:"rule"`
	Construct string `json:"construct"`
	What      string `json:"what"`
	Status    string `json:"status"` // "known" | "fixed"
	Commit    string `json:"commit,omitempty"`
	Witness   string `json:"witness,omitempty"`
}

// Ctx collects the obligations of one property check.
type Ctx struct {
	P           *Program
	Prop        string
	Tier        string
	Obs         []Obligation
	NotDecided  []string
	Assumptions []string
	Analysed    map[string]int // counters: functions, call sites, table cells, ...
	AnalysedFns map[string]bool
	Explanation string
	Exhaustive  bool
	Variant     string // build configuration label for thorough re-evaluations
	Strict      bool   // undecided obligations fail the check (development aid)
	// InlinedReports: rule groups (e.g. "2 stages") whose violations on the inlined view are
	// reported even when the source as written leaves the construct undecided: rules that
	// order deep call chains and have shown no artefacts on the expansion's shape.
	InlinedReports map[string]bool
	minimums    []minimum
	start       time.Time
}

type minimum struct {
	rule string
	want int
	got  int
}

func NewCtx(p *Program, prop, tier string) *Ctx {
	return &Ctx{P: p, Prop: prop, Tier: tier, Analysed: map[string]int{}, AnalysedFns: map[string]bool{}, start: time.Now()}
}

func (c *Ctx) add(rule, construct, pos, verdict, detail string) {
	c.Obs = append(c.Obs, Obligation{Rule: c.Prop + "." + rule, Construct: construct, Pos: pos, Verdict: verdict, Detail: detail})
}

// Ok records a discharged obligation.
// inlinedReportable: may a violation seen only on the inlined view be reported for this
// (rule group, construct)? Keys of InlinedReports: "group", "group|construct", or
// "group|*suffix" (any construct ending in suffix, e.g. one that starts with a function name).
func (c *Ctx) inlinedReportable(group, construct string, wholeGroup bool) bool {
	if wholeGroup && c.InlinedReports[group] {
		return true
	}
	if c.InlinedReports[group+"|"+construct] {
		return true
	}
	for k := range c.InlinedReports {
		if strings.HasPrefix(k, group+"|*") && strings.HasSuffix(construct, strings.TrimPrefix(k, group+"|*")) {
			return true
		}
	}
	return false
}

func (c *Ctx) Ok(rule, construct, pos, detail string) {
	c.add(rule, construct, pos, Discharged, detail)
}

// Fail records a violated obligation.
func (c *Ctx) Fail(rule, construct, pos, detail string) {
	c.add(rule, construct, pos, Violation, detail)
}

// Undecided records that an anchor / idiom could not be resolved: the rule has no positive
// evidence either way. It is reported (NOT-DECIDED line, evidence) but does not fail the
// check unless Strict is set: an alarm is raised only for a construct that is positively
// identified as violating, never for code the rule merely does not recognise.
func (c *Ctx) Undecided(rule, construct, detail string) {
	c.add(rule, construct, "", Undecided, detail)
}

// Expect is Check for "the expected construct is present" obligations: when cond is false the
// rule has not found what it looks for, which is not evidence of a violation (the construct
// may have moved or changed shape): the obligation is recorded as undecided.
func (c *Ctx) Expect(cond bool, rule, construct, pos, okDetail, missDetail string) bool {
	if cond {
		c.Ok(rule, construct, pos, okDetail)
	} else {
		c.add(rule, construct, pos, Undecided, missDetail)
	}
	return cond
}

// Check is Ok/Fail by condition.
func (c *Ctx) Check(cond bool, rule, construct, pos, okDetail, failDetail string) bool {
	if cond {
		c.Ok(rule, construct, pos, okDetail)
	} else {
		c.Fail(rule, construct, pos, failDetail)
	}
	return cond
}

// Min declares a vacuity guard: rule must have matched at least want instances.
// Check3 records a three-valued obligation: discharged on Yes, violation on No, undecided on Unknown.
func (c *Ctx) Check3(t Tri, rule, construct, pos, okDetail, failDetail string) Tri {
	switch t {
	case Yes:
		c.Ok(rule, construct, pos, okDetail)
	case No:
		c.Fail(rule, construct, pos, failDetail)
	default:
		c.Undecided(rule, construct, "not readable by the rule: "+failDetail)
	}
	return t
}

func (c *Ctx) Min(rule string, got, want int) {
	c.minimums = append(c.minimums, minimum{rule, want, got})
}

func (c *Ctx) Count(key string, n int) { c.Analysed[key] += n }

func (c *Ctx) SawFn(name string) { c.AnalysedFns[name] = true }

func (c *Ctx) NotDecidedClause(s string) { c.NotDecided = append(c.NotDecided, s) }
func (c *Ctx) Assume(s string)           { c.Assumptions = append(c.Assumptions, s) }

// LoadFindings reads the known-findings file (never written at run time).
func LoadFindings(path string) ([]Finding, error) {
	b, err := os.ReadFile(path)
	if err != nil {
		if os.IsNotExist(err) {
			return nil, nil
		}
		return nil, err
	}
	var f struct {
		Findings []Finding `json:"findings"`
	}
	if err := json.Unmarshal(b, &f); err != nil {
		return nil, err
	}
	return f.Findings, nil
}

// Finish applies vacuity guards and the known-findings file, writes evidence and replay
// files, prints the interface lines and returns the process exit code.
func (c *Ctx) Finish(verifDir string, seed int64, checkerCmd string) int {
	for _, m := range c.minimums {
		if m.got < m.want {
			c.Undecided(m.rule, fmt.Sprintf("vacuity guard: %s", m.rule), fmt.Sprintf("matched %d instance(s), expected at least %d (confirmed by hand on the reference tree)", m.got, m.want))
		} else {
			c.Ok(m.rule, fmt.Sprintf("vacuity guard: %s", m.rule), "", fmt.Sprintf("matched %d >= %d", m.got, m.want))
		}
	}
	findings, ferr := LoadFindings(filepath.Join(verifDir, "known_findings.json"))
	if ferr != nil {
		c.Undecided("findings", "known_findings.json", ferr.Error())
	}
	sort.SliceStable(c.Obs, func(i, j int) bool {
		a, b := c.Obs[i], c.Obs[j]
		if a.Rule != b.Rule {
			return a.Rule < b.Rule
		}
		return a.Construct < b.Construct
	})
	nKnown, nViol, nUndecided := 0, 0, 0
	outDir := filepath.Join(verifDir, "out", c.Prop)
	_ = os.RemoveAll(outDir)
	var lines []string
	for i := range c.Obs {
		o := &c.Obs[i]
		if o.Verdict != Violation && o.Verdict != Undecided {
			continue
		}
		if o.Verdict == Undecided && !c.Strict {
			nUndecided++
			lines = append(lines, fmt.Sprintf("NOT-DECIDED %s: %s -- %s", o.Rule, o.Construct, o.Detail))
			continue
		}
		matched := false
		if o.Verdict == Violation {
			for _, f := range findings {
				if f.Status == "known" && f.Property == c.Prop && f.Rule == o.Rule && f.Construct == o.Construct {
					matched = true
					o.Verdict = Known
					nKnown++
					lines = append(lines, fmt.Sprintf("KNOWN-FINDING: property=%s %s [%s | %s]", c.Prop, f.What, o.Rule, o.Construct))
					break
				}
			}
		}
		if matched {
			continue
		}
		nViol++
		_ = os.MkdirAll(outDir, 0o755)
		rp := filepath.Join(outDir, fmt.Sprintf("%d.json", nViol))
		kind := "violation"
		if o.Verdict == Undecided {
			kind = "undecided"
		}
		b, _ := json.MarshalIndent(map[string]any{"property": c.Prop, "kind": kind, "rule": o.Rule, "construct": o.Construct, "pos": o.Pos, "detail": o.Detail, "tier": c.Tier}, "", " ")
		_ = os.WriteFile(rp, b, 0o644)
		lines = append(lines, fmt.Sprintf("%s %s: %s -- %s (%s)", strings.ToUpper(kind), o.Rule, o.Construct, o.Detail, o.Pos))
		lines = append(lines, fmt.Sprintf("VIOLATION property=%s replay=%s", c.Prop, rp))
	}
	nDis := 0
	for _, o := range c.Obs {
		if o.Verdict == Discharged {
			nDis++
		}
	}
	// evidence
	if c.Assumptions == nil {
		c.Assumptions = []string{}
	}
	if c.NotDecided == nil {
		c.NotDecided = []string{}
	}
	c.Assumptions = append(c.Assumptions, "the analysed configuration (GOOS/GOARCH, tags) is the one shipped; third-party libraries behave as their documented signatures say")
	c.Assumptions = append(c.Assumptions, "the inlined view (source-level expansion of unexported helpers the rules do not name, re-type-checked) is the same program as the source as written; it only ever rescues a report, under the vacuity minima of the rule group")
	samples := make([]Obligation, 0, len(c.Obs))
	samples = append(samples, c.Obs...)
	fns := make([]string, 0, len(c.AnalysedFns))
	for f := range c.AnalysedFns {
		fns = append(fns, f)
	}
	sort.Strings(fns)
	distinct := map[string]bool{}
	for _, o := range c.Obs {
		distinct[o.Rule+"|"+o.Construct] = true
	}
	ev := map[string]any{
		"property_id": c.Prop,
		"tier":        c.Tier,
		"seed":        seed,
		"level":       "other",
		"coverage": map[string]any{
			"explanation":         c.Explanation,
			"obligations":         len(c.Obs),
			"discharged":          nDis,
			"known_findings":      nKnown,
			"undischarged":        nViol,
			"evaluations":         len(c.Obs),
			"distinct_nontrivial": len(distinct),
			"rule":                "one obligation per (rule, construct) instance found in /repo's current source; distinct = distinct (rule, construct) keys; every instance is non-trivial in that it names a concrete function, call site, table cell or path",
			"samples":             samples,
			"exhaustive":          c.Exhaustive,
			"not_decided":         c.NotDecided,
			"analysed": map[string]any{
				"packages":      len(c.P.All),
				"ssa_functions": c.P.NumFuncs,
				"counters":      c.Analysed,
				"functions":     fns,
				"goos":          c.P.GOOS,
				"goarch":        c.P.GOARCH,
				"load_seconds":  c.P.LoadSecs,
			},
			"checker_cmd":  checkerCmd,
			"trusted_base": []string{"go/types, go/ssa, go/callgraph (golang.org/x/tools v0.29.0)", "the Go toolchain's parser and type checker", "third-party libraries by signature only (gjson, sjson, go-set, macaroon, ed25519, encoding/json)", "the specification tables transcribed in checker/props"},
		},
		"assumptions": c.Assumptions,
		"wall_s":      time.Since(c.start).Seconds() + c.P.LoadSecs,
		"violations":  nViol,
	}
	b, _ := json.MarshalIndent(ev, "", " ")
	_ = os.MkdirAll(filepath.Join(verifDir, "evidence"), 0o755)
	if err := os.WriteFile(filepath.Join(verifDir, "evidence", c.Prop+".json"), b, 0o644); err != nil {
		fmt.Println("cannot write evidence:", err)
		return 2
	}
	for _, l := range lines {
		fmt.Println(l)
	}
	fmt.Printf("%s tier=%s obligations=%d discharged=%d known=%d undischarged=%d undecided=%d functions=%d load=%.1fs\n", c.Prop, c.Tier, len(c.Obs), nDis, nKnown, nViol, nUndecided, len(fns), c.P.LoadSecs)
	if nViol > 0 {
		return 1
	}
	return 0
}

// Merge folds the obligations of a re-evaluation under another build configuration into c.
// Constructs are prefixed with the variant only when the verdict differs from discharged,
// so known-finding keys stay stable; discharged ones are counted.
func (c *Ctx) Merge(o *Ctx) {
	for _, m := range o.minimums {
		if m.got < m.want {
			c.Undecided(m.rule, fmt.Sprintf("vacuity guard: %s [%s]", m.rule, o.Variant), fmt.Sprintf("matched %d < %d", m.got, m.want))
		}
	}
	have := map[string]string{}
	for _, ob := range c.Obs {
		have[ob.Rule+"|"+ob.Construct] = ob.Verdict
	}
	for _, ob := range o.Obs {
		k := ob.Rule + "|" + ob.Construct
		if v, ok := have[k]; ok && v == ob.Verdict {
			c.Analysed["reconfirmed["+o.Variant+"]"]++
			continue
		}
		ob.Construct = ob.Construct + " [" + o.Variant + "]"
		c.Obs = append(c.Obs, ob)
	}
}

// Graph returns the call graph used for reachability obligations: VTA (most precise
// available) in the quick tier; CHA, a superset and therefore more conservative, in the
// thorough tier.
func (c *Ctx) Graph() *callgraph.Graph {
	if c.Tier == "thorough" {
		return c.P.CHA()
	}
	return c.P.VTA()
}

// CombineViews folds the obligations of the same rules evaluated on the inlined view (b) into
// the ones evaluated on the source as written (a). Both views are the same program, so an
// obligation is discharged if either view discharges it. A violation is reported only for a
// construct of the source as written that the inlined view does not discharge: the inlined
// view rescues, it never adds reports (its own shape - result variables, gotos - has artefacts
// of its own). Obligations are matched by (rule, construct).
func (a *Ctx) CombineViews(b *Ctx) {
	if os.Getenv("GMSL_VIEWS") != "" {
		for _, o := range b.Obs {
			if o.Verdict != Discharged {
				fmt.Printf("[inlined view] %s %s: %s -- %s (%s)\n", o.Verdict, o.Rule, o.Construct, o.Detail, o.Pos)
			}
		}
	}
	for _, m := range b.minimums {
		for i := range a.minimums {
			if a.minimums[i].rule == m.rule && m.got > a.minimums[i].got {
				a.minimums[i].got = m.got
			}
		}
	}
	type key struct{ rule, construct string }
	idx := map[key][]int{}
	for i, o := range a.Obs {
		k := key{o.Rule, o.Construct}
		idx[k] = append(idx[k], i)
	}
	bBest := map[key]string{}
	rank := map[string]int{Violation: 0, Undecided: 1, Discharged: 2}
	for _, o := range b.Obs {
		k := key{o.Rule, o.Construct}
		if cur, ok := bBest[k]; !ok || rank[o.Verdict] < rank[cur] {
			bBest[k] = o.Verdict // the worst verdict of the inlined view for this key
		}
	}
	// vacuity guard for rescues: the instance counts confirmed on the reference tree (Min) are
	// the measure of whether a rule group still has its grip on the inlined view (it may lose it,
	// e.g. when it classifies return statements that the expansion turned into assignments): a
	// group whose minimum is not met there does not rescue anything
	group := func(rule string) string { return strings.TrimPrefix(rule, a.Prop+".") }
	minOK := func(rule string) bool {
		g := group(rule)
		for _, m := range b.minimums {
			if strings.HasPrefix(m.rule, g) && m.got < m.want {
				return false
			}
		}
		return true
	}
	bad, good := map[string]int{}, map[string]int{}
	for _, o := range b.Obs {
		if o.Verdict == Discharged {
			good[o.Rule]++
		} else {
			bad[o.Rule]++
		}
	}
	for k, is := range idx {
		bv, haveKey := bBest[k]
		groupClean := bad[k.rule] == 0 && good[k.rule] > 0
		if !minOK(k.rule) {
			continue
		}
		for _, i := range is {
			o := &a.Obs[i]
			switch {
			case o.Verdict == Discharged:
			case haveKey && bv == Discharged:
				o.Detail = "discharged on the inlined view (as written: " + o.Verdict + " - " + o.Detail + ")"
				o.Verdict = Discharged
			case haveKey && o.Verdict == Violation && bv == Undecided && os.Getenv("GMSL_NO_CONFIRM") == "":
				// a violation as written that the normalised program can neither confirm nor discharge:
				// the rule depends on how the code is cut into functions there. Not reported. (On the
				// 200 seeded bugs this withdraws no report; it exists for the refactor nobody has seen.)
				o.Detail = "not confirmed on the inlined view (as written: violation - " + o.Detail + ")"
				o.Verdict = Undecided
			case !haveKey && groupClean && o.Verdict == Violation:
				// the rule group decides everything on the inlined view and reports nothing there
				o.Detail = "the rule group holds on the inlined view (as written: violation - " + o.Detail + ")"
				o.Verdict = Discharged
			case haveKey && o.Verdict == Undecided && bv == Violation && (os.Getenv("GMSL_INLINE_ADD") != "" || a.inlinedReportable(group(o.Rule), o.Construct, false)):
				for _, bo := range b.Obs {
					if bo.Rule == k.rule && bo.Construct == k.construct && bo.Verdict == Violation {
						o.Verdict, o.Detail, o.Pos = Violation, bo.Detail+" [inlined view]", bo.Pos
						break
					}
				}
			}
		}
	}
	// a violation of a that the inlined view proves under the same key in every instance was
	// handled above; obligations that exist only in the inlined view are added as they are,
	// unless the source view discharges the rule for the same function under another key
	for _, o := range b.Obs {
		k := key{o.Rule, o.Construct}
		if _, ok := idx[k]; ok {
			continue
		}
		o.Detail = o.Detail + " [inlined view]"
		if o.Verdict == Violation && os.Getenv("GMSL_INLINE_ADD") == "" && !a.inlinedReportable(group(o.Rule), o.Construct, true) {
			// the inlined view only ever rescues: a report needs the construct as written
			o.Verdict = Undecided
			o.Detail = "reported on the inlined view only: " + o.Detail
		}
		a.Obs = append(a.Obs, o)
	}
	for k, v := range b.Analysed {
		a.Analysed["inlined view: "+k] += v
	}
	if b.P.Inlined != nil {
		a.Analysed["inlined view: call sites expanded"] = b.P.Inlined.Sites
	}
}
