package fw

import (
	"fmt"
	"go/constant"
	"go/token"
	"go/types"
	"strings"

	"golang.org/x/tools/go/ssa"
)

// ---- structural, position-free descriptions of values and branch conditions ----

// Sig renders the provenance of a value as a normalised string: calls by callee and
// argument signatures, parameters by index, constants by value, field reads by field name.
// Locals' names never appear, so renaming and re-ordering independent code does not change it.
func Sig(v ssa.Value) string {
	s := sig(v, 0, map[ssa.Value]bool{})
	// a value struct that is spilled, passed on and spilled again renders as *&*&x: one level is enough
	for strings.Contains(s, "*&*&") {
		s = strings.ReplaceAll(s, "*&*&", "*&")
	}
	// the address of a local copy of x is, for the read-only uses the rules look at, the address of x
	for strings.Contains(s, "&*") {
		s = strings.ReplaceAll(s, "&*", "")
	}
	return s
}

// sigValSubst: values rendered as another value (a phi as the operand of one incoming edge,
// see PhiEdgeReaches).
var sigValSubst = map[ssa.Value]ssa.Value{}

// sigSubst: while the body of an entered helper is rendered, its parameters are rendered as
// the signatures of the arguments at the call site (see ExpandAtom).
var sigSubst = map[*ssa.Parameter]string{}

// WithSubst runs f with the given parameter substitution added to the current one.
func WithSubst(sub map[*ssa.Parameter]string, f func()) {
	old := sigSubst
	n := map[*ssa.Parameter]string{}
	for k, v := range old {
		n[k] = v
	}
	for k, v := range sub {
		n[k] = v
	}
	sigSubst = n
	defer func() { sigSubst = old }()
	f()
}

func sig(v ssa.Value, depth int, seen map[ssa.Value]bool) string {
	if v == nil {
		return "?"
	}
	if depth > 7 {
		return "..."
	}
	if seen[v] {
		return "<cycle>"
	}
	if sub, ok := sigValSubst[v]; ok && sub != v {
		return sig(sub, depth, seen)
	}
	seen[v] = true
	defer delete(seen, v)
	switch x := v.(type) {
	case *ssa.Const:
		if x.Value == nil {
			return "nil"
		}
		if x.Value.Kind() == constant.String {
			return fmt.Sprintf("%q", constant.StringVal(x.Value))
		}
		return x.Value.ExactString()
	case *ssa.Parameter:
		if sub, ok := sigSubst[x]; ok {
			return sub
		}
		fn := x.Parent()
		for i, p := range fn.Params {
			if p == x {
				if i == 0 && fn.Signature.Recv() != nil {
					return "recv"
				}
				return "param:" + paramName(x, i)
			}
		}
		return "param:" + x.Name()
	case *ssa.FreeVar:
		return "free:" + x.Name()
	case *ssa.Global:
		return "global:" + Short(x.String())
	case *ssa.Function:
		return "func:" + FuncName(x)
	case *ssa.Call:
		name := CalleeName(x)
		if name == "fmt.Sprintf" {
			if c, ok := sprintfConcat(x, depth, seen); ok {
				return c
			}
		}
		if name == "" {
			name = "dyn(" + sig(x.Call.Value, depth+1, seen) + ")"
		}
		var args []string
		if x.Call.IsInvoke() {
			args = append(args, sig(x.Call.Value, depth+1, seen))
		}
		for _, a := range x.Call.Args {
			args = append(args, sig(a, depth+1, seen))
		}
		return name + "(" + strings.Join(args, ",") + ")"
	case *ssa.Extract:
		return sig(x.Tuple, depth, seen) + "#" + fmt.Sprint(x.Index)
	case *ssa.BinOp:
		return "(" + sig(x.X, depth+1, seen) + " " + x.Op.String() + " " + sig(x.Y, depth+1, seen) + ")"
	case *ssa.UnOp:
		switch x.Op {
		case token.MUL:
			if o := LoadOrigin(x); o != ssa.Value(x) {
				return sig(o, depth+1, seen)
			}
			if v := literalField(x); v != nil {
				return sig(v, depth+1, seen)
			}
			return "*" + sig(x.X, depth+1, seen)
		case token.NOT:
			return "!" + sig(x.X, depth+1, seen)
		}
		return x.Op.String() + sig(x.X, depth+1, seen)
	case *ssa.FieldAddr:
		st := derefStruct(x.X.Type())
		name := fmt.Sprint(x.Field)
		if st != nil {
			name = st.Field(x.Field).Name()
		}
		return sig(x.X, depth, seen) + "." + name
	case *ssa.Field:
		st, _ := x.X.Type().Underlying().(*types.Struct)
		name := fmt.Sprint(x.Field)
		if st != nil {
			name = st.Field(x.Field).Name()
		}
		return sig(x.X, depth, seen) + "." + name
	case *ssa.IndexAddr:
		return sig(x.X, depth+1, seen) + "[" + sig(x.Index, depth+1, seen) + "]"
	case *ssa.Index:
		return sig(x.X, depth+1, seen) + "[" + sig(x.Index, depth+1, seen) + "]"
	case *ssa.Lookup:
		return sig(x.X, depth+1, seen) + "[" + sig(x.Index, depth+1, seen) + "]"
	case *ssa.Slice:
		lo, hi := "", ""
		if n, ok := ConstInt(x.Low); ok && x.Low != nil {
			lo = fmt.Sprint(n)
		} else if x.Low != nil {
			lo = sig(x.Low, depth+1, seen)
		}
		if n, ok := ConstInt(x.High); ok && x.High != nil {
			hi = fmt.Sprint(n)
		} else if x.High != nil {
			hi = sig(x.High, depth+1, seen)
		}
		return sig(x.X, depth+1, seen) + "[" + lo + ":" + hi + "]"
	case *ssa.Convert:
		return sig(x.X, depth, seen)
	case *ssa.ChangeType:
		return sig(x.X, depth, seen)
	case *ssa.ChangeInterface:
		return sig(x.X, depth, seen)
	case *ssa.MakeInterface:
		return sig(x.X, depth, seen)
	case *ssa.TypeAssert:
		return sig(x.X, depth+1, seen) + ".(" + Short(x.AssertedType.String()) + ")"
	case *ssa.Alloc:
		// a spilled parameter or a local: describe by what is stored, if unique
		var vals []ssa.Value
		for _, ref := range *x.Referrers() {
			if st, ok := ref.(*ssa.Store); ok && st.Addr == ssa.Value(x) {
				vals = append(vals, st.Val)
			}
		}
		if len(vals) == 1 {
			return "&" + sig(vals[0], depth+1, seen)
		}
		return "local:" + Short(x.Type().String())
	case *ssa.Phi:
		edges := x.Edges
		if IsExpansionTemp(x) {
			// the result variable of an expanded helper: the zero values that accompany the
			// helper's failure exits are not what the caller goes on to use
			var live []ssa.Value
			for _, e := range edges {
				if c, isC := e.(*ssa.Const); isC && c.Value == nil {
					continue
				}
				live = append(live, e)
			}
			if len(live) == 1 {
				return sig(live[0], depth, seen)
			}
			if len(live) > 1 {
				edges = live
			}
		}
		var es []string
		for _, e := range edges {
			es = append(es, sig(e, depth+1, seen))
		}
		return "phi(" + strings.Join(es, "|") + ")"
	case *ssa.MakeMap:
		return "makemap"
	case *ssa.MakeSlice:
		return "makeslice"
	case *ssa.MakeClosure:
		return "closure:" + FuncName(x.Fn.(*ssa.Function))
	case *ssa.Next:
		return "next(" + sig(x.Iter, depth+1, seen) + ")"
	case *ssa.Range:
		return "range(" + sig(x.X, depth+1, seen) + ")"
	}
	return fmt.Sprintf("%T", v)
}

// CondFact: the If `If` was decided with value Taken on the way to a block.
type CondFact struct {
	If    *ssa.If
	Taken bool
	Sig   string // Sig of the condition, with negations folded into Taken
}

// DomConds lists the branch conditions that hold on entry to block b because b is reachable
// only through that edge (walks the dominator tree).
//
// Result variables of expanded helpers (inline.go) are threaded: the tests of such variables
// met on the way up restrict which incoming edges of the block that merges them (the label
// after the expansion) are compatible; when exactly one is left, the walk continues from that
// predecessor - the conditions inside the helper that led to that exit hold here - and the
// tests of the variables themselves are not reported.
func DomConds(b *ssa.BasicBlock) []CondFact {
	var out []CondFact
	compat := map[*ssa.BasicBlock]map[int]bool{} // merge block -> indices of compatible predecessors
	restrict := func(iff *ssa.If, taken bool) bool {
		// taken: the true edge of iff was followed
		phi, eval, isTest := PhiTest(iff.Cond)
		if !isTest || !IsExpansionTemp(phi) {
			return false
		}
		q := phi.Block()
		if !q.Dominates(iff.Block()) {
			return false
		}
		set, have := compat[q]
		if !have {
			set = map[int]bool{}
			for i, p := range q.Preds {
				if q.Dominates(p) {
					return false // merged around a loop: not threaded
				}
				set[i] = true
			}
			compat[q] = set
		}
		for i, e := range phi.Edges {
			if !set[i] {
				continue
			}
			if val, known := eval(e, q.Preds[i]); known && val != taken {
				delete(set, i)
			}
		}
		return true
	}
	factOf := func(iff *ssa.If, trueEdge bool) {
		if restrict(iff, trueEdge) {
			return
		}
		taken := trueEdge
		v, neg := BoolCond(iff.Cond)
		if neg {
			taken = !taken
		}
		out = append(out, CondFact{If: iff, Taken: taken, Sig: Sig(v)})
	}
	steps := 0
	limit := 4*len(b.Parent().Blocks) + 8
	d := b
	for d != nil && steps < limit {
		steps++
		// threading: d merges result variables and only one predecessor is compatible with the
		// tests met below
		if set, have := compat[d]; have && len(set) == 1 {
			delete(compat, d)
			for i := range set {
				p := d.Preds[i]
				if iff, ok := lastIf(p); ok && len(p.Succs) == 2 && p.Succs[0] != p.Succs[1] {
					factOf(iff, p.Succs[0] == d)
				}
				d = p
			}
			continue
		}
		id := d.Idom()
		if id == nil {
			break
		}
		iff, ok := lastIf(id)
		if !ok || len(id.Succs) != 2 || id.Succs[0] == id.Succs[1] {
			d = id
			continue
		}
		// d must be entered only from id, through exactly one of the two edges
		if len(d.Preds) != 1 || d.Preds[0] != id {
			// d may be a join of several blocks all dominated by one successor of id
			var via *ssa.BasicBlock
			okAll := true
			for _, p := range d.Preds {
				var s *ssa.BasicBlock
				for _, cand := range id.Succs {
					if cand.Dominates(p) && cand != d {
						s = cand
					}
					if cand == d && p == id {
						s = d
					}
				}
				if s == nil || (via != nil && via != s) {
					okAll = false
					break
				}
				via = s
			}
			if okAll && via != nil {
				factOf(iff, via == id.Succs[0])
			}
			d = id
			continue
		}
		factOf(iff, id.Succs[0] == d)
		d = id
	}
	// outermost first
	for i, j := 0, len(out)-1; i < j; i, j = i+1, j-1 {
		out[i], out[j] = out[j], out[i]
	}
	return out
}

// IsErrCheck: the condition is "x != nil" / "x == nil" on an error-typed value and the
// non-nil edge only leads to returns (the `if err != nil { return ... }` idiom).
func IsErrCheck(f CondFact) bool {
	v, _, ok := NilCheck(f.If.Cond)
	if !ok {
		return false
	}
	if !types.Identical(v.Type(), types.Universe.Lookup("error").Type()) {
		return false
	}
	return true
}

// FactString renders a fact.
func (f CondFact) String() string {
	if f.Taken {
		return f.Sig
	}
	return "!" + f.Sig
}

// CondStrings renders the non-error-check facts of a block.
func CondStrings(b *ssa.BasicBlock) []string {
	var out []string
	for _, f := range DomConds(b) {
		if IsErrCheck(f) {
			continue
		}
		out = append(out, f.String())
	}
	return out
}

// VariadicElems: the elements of a variadic argument pack built at the call site
// (slice of a fresh array with one store per index), in index order.
func VariadicElems(v ssa.Value) ([]ssa.Value, bool) {
	sl, ok := v.(*ssa.Slice)
	if !ok {
		if c, isC := v.(*ssa.Const); isC && c.Value == nil {
			return nil, true // no variadic arguments
		}
		return nil, false
	}
	al, ok := sl.X.(*ssa.Alloc)
	if !ok {
		return nil, false
	}
	arr, ok := al.Type().Underlying().(*types.Pointer).Elem().Underlying().(*types.Array)
	if !ok {
		return nil, false
	}
	out := make([]ssa.Value, arr.Len())
	for _, ref := range *al.Referrers() {
		ia, ok := ref.(*ssa.IndexAddr)
		if !ok {
			continue
		}
		idx, isC := ConstInt(ia.Index)
		if !isC || idx < 0 || idx >= arr.Len() {
			return nil, false
		}
		for _, r2 := range *ia.Referrers() {
			if st, ok := r2.(*ssa.Store); ok && st.Addr == ssa.Value(ia) {
				if out[idx] != nil {
					return nil, false
				}
				out[idx] = st.Val
			}
		}
	}
	for _, e := range out {
		if e == nil {
			return nil, false
		}
	}
	return out, true
}

// sprintfConcat renders fmt.Sprintf("lit%slit", a) as the concatenation ("lit" + a + "lit")
// when the format has only %s verbs and every operand is a plain string, so that the two
// spellings of the same string have the same signature.
func sprintfConcat(x *ssa.Call, depth int, seen map[ssa.Value]bool) (string, bool) {
	if len(x.Call.Args) != 2 {
		return "", false
	}
	format, ok := ConstString(x.Call.Args[0])
	if !ok {
		return "", false
	}
	elems, ok := VariadicElems(x.Call.Args[1])
	if !ok {
		return "", false
	}
	var parts []string
	rest := format
	ei := 0
	for {
		i := strings.Index(rest, "%")
		if i < 0 {
			break
		}
		if i+1 >= len(rest) || rest[i+1] != 's' || ei >= len(elems) {
			return "", false
		}
		if i > 0 {
			parts = append(parts, fmt.Sprintf("%q", rest[:i]))
		}
		e := elems[ei]
		if mi, isMI := e.(*ssa.MakeInterface); isMI {
			e = mi.X
		}
		b, isB := e.Type().Underlying().(*types.Basic)
		if !isB || b.Info()&types.IsString == 0 {
			return "", false
		}
		if ms := types.NewMethodSet(e.Type()); ms.Lookup(nil, "String") != nil || ms.Lookup(nil, "Error") != nil {
			return "", false
		}
		parts = append(parts, sig(e, depth+1, seen))
		ei++
		rest = rest[i+2:]
	}
	if rest != "" {
		parts = append(parts, fmt.Sprintf("%q", rest))
	}
	if ei != len(elems) || len(parts) == 0 {
		return "", false
	}
	if len(parts) == 1 {
		return parts[0], true
	}
	out := parts[0]
	for _, p := range parts[1:] {
		out = "(" + out + " + " + p + ")"
	}
	return out, true
}

// branchesOnExpansionTemp: the block ends in a test of a result variable of an expanded helper.
func branchesOnExpansionTemp(b *ssa.BasicBlock) bool {
	iff, ok := lastIf(b)
	if !ok {
		return false
	}
	v := ssa.Value(nil)
	if nv, _, isNil := NilCheck(iff.Cond); isNil {
		v = nv
	} else {
		v, _ = BoolCond(iff.Cond)
	}
	phi, isPhi := v.(*ssa.Phi)
	return isPhi && phi.Block() == b && IsExpansionTemp(phi)
}

func isZeroConst(c *ssa.Const) bool {
	if c.Value == nil {
		return true
	}
	switch c.Value.ExactString() {
	case "0", "false", `""`:
		return true
	}
	return false
}

// RefParams (set by the rules package): for the functions of the reference tree, the names and
// types of their parameters in order. A function of the current tree that has the same name
// and the same parameter types is rendered with the reference names, so that renaming a
// parameter does not change any signature the rules match.
var RefParams map[string][][2]string

var paramAliasMemo = map[*ssa.Function][]string{}

func paramName(p *ssa.Parameter, idx int) string {
	fn := p.Parent()
	names, ok := paramAliasMemo[fn]
	if !ok {
		names = nil
		if ref, have := RefParams[FuncName(fn)]; have && len(ref) == len(fn.Params) {
			same := true
			for i, q := range fn.Params {
				if Short(q.Type().String()) != ref[i][1] {
					same = false
				}
			}
			if same {
				for _, r := range ref {
					names = append(names, r[0])
				}
			}
		}
		paramAliasMemo[fn] = names
	}
	if names != nil && idx < len(names) && names[idx] != "" && names[idx] != "_" {
		return names[idx]
	}
	return p.Name()
}

// DumpParams prints the parameter table of the loaded tree (the reference table is generated
// from the reference tree with it).
func DumpParams(p *Program) map[string][][2]string {
	out := map[string][][2]string{}
	for _, fn := range p.SrcFuncs() {
		if fn.Parent() != nil || fn.Synthetic != "" {
			continue
		}
		var ps [][2]string
		for _, q := range fn.Params {
			ps = append(ps, [2]string{q.Name(), Short(q.Type().String())})
		}
		if len(ps) > 0 {
			out[FuncName(fn)] = ps
		}
	}
	return out
}

// literalField: a load of a field of a local struct that is only ever built by one composite
// literal (each field stored at most once, the address handed to nobody) is the value the
// literal puts there: the struct merely carries it.
func literalField(ld *ssa.UnOp) ssa.Value {
	fa, ok := ld.X.(*ssa.FieldAddr)
	if !ok {
		return nil
	}
	al, ok := fa.X.(*ssa.Alloc)
	if !ok {
		return nil
	}
	var val ssa.Value
	for _, ref := range *al.Referrers() {
		switch r := ref.(type) {
		case *ssa.FieldAddr:
			for _, r2 := range *r.Referrers() {
				switch u := r2.(type) {
				case *ssa.Store:
					if u.Addr != ssa.Value(r) {
						return nil // the field's address is stored somewhere
					}
					if r.Field == fa.Field {
						if val != nil {
							return nil
						}
						val = u.Val
					}
				case *ssa.UnOp:
				default:
					return nil
				}
			}
		case *ssa.UnOp: // a whole-struct load
		case *ssa.DebugRef:
		default:
			return nil // the struct's address escapes (a call, a store)
		}
	}
	return val
}
