package fw

import (
	"fmt"
	"go/constant"
	"go/token"
	"go/types"
	"strings"

	"golang.org/x/tools/go/ssa"
)

// ---- structural, position-free descriptions of values and branch conditions ----

// Sig renders the provenance of a value as a normalised string: calls by callee and
// argument signatures, parameters by index, constants by value, field reads by field name.
// Locals' names never appear, so renaming and re-ordering independent code does not change it.
func Sig(v ssa.Value) string { return sig(v, 0, map[ssa.Value]bool{}) }

func sig(v ssa.Value, depth int, seen map[ssa.Value]bool) string {
	if v == nil {
		return "?"
	}
	if depth > 7 {
		return "..."
	}
	if seen[v] {
		return "<cycle>"
	}
	seen[v] = true
	defer delete(seen, v)
	switch x := v.(type) {
	case *ssa.Const:
		if x.Value == nil {
			return "nil"
		}
		if x.Value.Kind() == constant.String {
			return fmt.Sprintf("%q", constant.StringVal(x.Value))
		}
		return x.Value.ExactString()
	case *ssa.Parameter:
		fn := x.Parent()
		for i, p := range fn.Params {
			if p == x {
				if i == 0 && fn.Signature.Recv() != nil {
					return "recv"
				}
				return "param:" + x.Name()
			}
		}
		return "param:" + x.Name()
	case *ssa.FreeVar:
		return "free:" + x.Name()
	case *ssa.Global:
		return "global:" + Short(x.String())
	case *ssa.Function:
		return "func:" + FuncName(x)
	case *ssa.Call:
		name := CalleeName(x)
		if name == "" {
			name = "dyn(" + sig(x.Call.Value, depth+1, seen) + ")"
		}
		var args []string
		if x.Call.IsInvoke() {
			args = append(args, sig(x.Call.Value, depth+1, seen))
		}
		for _, a := range x.Call.Args {
			args = append(args, sig(a, depth+1, seen))
		}
		return name + "(" + strings.Join(args, ",") + ")"
	case *ssa.Extract:
		return sig(x.Tuple, depth, seen) + "#" + fmt.Sprint(x.Index)
	case *ssa.BinOp:
		return "(" + sig(x.X, depth+1, seen) + " " + x.Op.String() + " " + sig(x.Y, depth+1, seen) + ")"
	case *ssa.UnOp:
		switch x.Op {
		case token.MUL:
			if o := LoadOrigin(x); o != ssa.Value(x) {
				return sig(o, depth+1, seen)
			}
			return "*" + sig(x.X, depth+1, seen)
		case token.NOT:
			return "!" + sig(x.X, depth+1, seen)
		}
		return x.Op.String() + sig(x.X, depth+1, seen)
	case *ssa.FieldAddr:
		st := derefStruct(x.X.Type())
		name := fmt.Sprint(x.Field)
		if st != nil {
			name = st.Field(x.Field).Name()
		}
		return sig(x.X, depth, seen) + "." + name
	case *ssa.Field:
		st, _ := x.X.Type().Underlying().(*types.Struct)
		name := fmt.Sprint(x.Field)
		if st != nil {
			name = st.Field(x.Field).Name()
		}
		return sig(x.X, depth, seen) + "." + name
	case *ssa.IndexAddr:
		return sig(x.X, depth+1, seen) + "[" + sig(x.Index, depth+1, seen) + "]"
	case *ssa.Index:
		return sig(x.X, depth+1, seen) + "[" + sig(x.Index, depth+1, seen) + "]"
	case *ssa.Lookup:
		return sig(x.X, depth+1, seen) + "[" + sig(x.Index, depth+1, seen) + "]"
	case *ssa.Slice:
		return sig(x.X, depth+1, seen) + "[:]"
	case *ssa.Convert:
		return sig(x.X, depth, seen)
	case *ssa.ChangeType:
		return sig(x.X, depth, seen)
	case *ssa.ChangeInterface:
		return sig(x.X, depth, seen)
	case *ssa.MakeInterface:
		return sig(x.X, depth, seen)
	case *ssa.TypeAssert:
		return sig(x.X, depth+1, seen) + ".(" + Short(x.AssertedType.String()) + ")"
	case *ssa.Alloc:
		// a spilled parameter or a local: describe by what is stored, if unique
		var vals []ssa.Value
		for _, ref := range *x.Referrers() {
			if st, ok := ref.(*ssa.Store); ok && st.Addr == ssa.Value(x) {
				vals = append(vals, st.Val)
			}
		}
		if len(vals) == 1 {
			return "&" + sig(vals[0], depth+1, seen)
		}
		return "local:" + Short(x.Type().String())
	case *ssa.Phi:
		var es []string
		for _, e := range x.Edges {
			es = append(es, sig(e, depth+1, seen))
		}
		return "phi(" + strings.Join(es, "|") + ")"
	case *ssa.MakeMap:
		return "makemap"
	case *ssa.MakeSlice:
		return "makeslice"
	case *ssa.MakeClosure:
		return "closure:" + FuncName(x.Fn.(*ssa.Function))
	case *ssa.Next:
		return "next(" + sig(x.Iter, depth+1, seen) + ")"
	case *ssa.Range:
		return "range(" + sig(x.X, depth+1, seen) + ")"
	}
	return fmt.Sprintf("%T", v)
}

// CondFact: the If `If` was decided with value Taken on the way to a block.
type CondFact struct {
	If    *ssa.If
	Taken bool
	Sig   string // Sig of the condition, with negations folded into Taken
}

// DomConds lists the branch conditions that hold on entry to block b because b is reachable
// only through that edge (walks the dominator tree).
func DomConds(b *ssa.BasicBlock) []CondFact {
	var out []CondFact
	for d := b; d != nil; d = d.Idom() {
		id := d.Idom()
		if id == nil {
			break
		}
		if len(id.Instrs) == 0 {
			continue
		}
		iff, ok := id.Instrs[len(id.Instrs)-1].(*ssa.If)
		if !ok {
			continue
		}
		// d must be entered only from id, through exactly one of the two edges
		if len(d.Preds) != 1 || d.Preds[0] != id {
			// d may be a join of several blocks all dominated by one successor of id
			var via *ssa.BasicBlock
			okAll := true
			for _, p := range d.Preds {
				var s *ssa.BasicBlock
				for _, cand := range id.Succs {
					if cand.Dominates(p) && cand != d {
						s = cand
					}
					if cand == d && p == id {
						s = d
					}
				}
				if s == nil || (via != nil && via != s) {
					okAll = false
					break
				}
				via = s
			}
			if !okAll || via == nil || id.Succs[0] == id.Succs[1] {
				continue
			}
			taken := via == id.Succs[0]
			v, neg := BoolCond(iff.Cond)
			if neg {
				taken = !taken
			}
			out = append(out, CondFact{If: iff, Taken: taken, Sig: Sig(v)})
			continue
		}
		if id.Succs[0] == id.Succs[1] {
			continue
		}
		taken := id.Succs[0] == d
		v, neg := BoolCond(iff.Cond)
		if neg {
			taken = !taken
		}
		out = append(out, CondFact{If: iff, Taken: taken, Sig: Sig(v)})
	}
	// outermost first
	for i, j := 0, len(out)-1; i < j; i, j = i+1, j-1 {
		out[i], out[j] = out[j], out[i]
	}
	return out
}

// IsErrCheck: the condition is "x != nil" / "x == nil" on an error-typed value and the
// non-nil edge only leads to returns (the `if err != nil { return ... }` idiom).
func IsErrCheck(f CondFact) bool {
	v, _, ok := NilCheck(f.If.Cond)
	if !ok {
		return false
	}
	if !types.Identical(v.Type(), types.Universe.Lookup("error").Type()) {
		return false
	}
	return true
}

// FactString renders a fact.
func (f CondFact) String() string {
	if f.Taken {
		return f.Sig
	}
	return "!" + f.Sig
}

// CondStrings renders the non-error-check facts of a block.
func CondStrings(b *ssa.BasicBlock) []string {
	var out []string
	for _, f := range DomConds(b) {
		if IsErrCheck(f) {
			continue
		}
		out = append(out, f.String())
	}
	return out
}
