package fw

import (
	"go/token"
	"go/types"

	"golang.org/x/tools/go/ssa"
)

// ---- value provenance (backwards def-use within one function) ----

// FlowSpec configures DerivesFrom.
type FlowSpec struct {
	// IsSource: v is an acceptable origin.
	IsSource func(v ssa.Value) bool
	// Through: calls whose result is considered derived from (some of) their arguments:
	// returns the argument indices to follow (nil = opaque call, not followed).
	Through func(c ssa.CallInstruction) []int
	// All: every alternative (phi edges, all stores to a local) must derive from a source.
	// Otherwise one alternative suffices.
	All bool
	// Family (optional): the functions (a function and its closures) in which stores to
	// struct fields are looked up when a value is loaded from a field: a load of T.f then
	// derives from what is stored to T.f anywhere in the family (field-sensitive,
	// object-insensitive).
	Family []*ssa.Function
}

// FamilyOf returns fn and all its (transitively) nested anonymous functions.
func FamilyOf(fn *ssa.Function) []*ssa.Function {
	out := []*ssa.Function{fn}
	for _, a := range fn.AnonFuncs {
		out = append(out, FamilyOf(a)...)
	}
	return out
}

// StoresToField lists values stored to field #idx of struct type st within the family.
func StoresToField(family []*ssa.Function, st *types.Struct, idx int) []ssa.Value {
	var out []ssa.Value
	for _, f := range family {
		for _, b := range f.Blocks {
			for _, ins := range b.Instrs {
				s, ok := ins.(*ssa.Store)
				if !ok {
					continue
				}
				fa, ok := s.Addr.(*ssa.FieldAddr)
				if !ok || fa.Field != idx {
					continue
				}
				if ds := derefStruct(fa.X.Type()); ds != nil && types.Identical(ds, st) {
					out = append(out, s.Val)
				}
			}
		}
	}
	return out
}

// DerivesFrom reports whether v derives from a source under spec.
func DerivesFrom(v ssa.Value, spec FlowSpec) bool {
	return derives(v, spec, map[ssa.Value]bool{}, 0)
}

func derives(v ssa.Value, s FlowSpec, seen map[ssa.Value]bool, depth int) bool {
	if v == nil || depth > 40 {
		return false
	}
	if s.IsSource(v) {
		return true
	}
	if seen[v] {
		return s.All // a cycle adds no new origin
	}
	seen[v] = true
	alts := func(vals []ssa.Value) bool {
		if len(vals) == 0 {
			return false
		}
		if s.All {
			for _, x := range vals {
				if !derives(x, s, seen, depth+1) {
					return false
				}
			}
			return true
		}
		for _, x := range vals {
			if derives(x, s, seen, depth+1) {
				return true
			}
		}
		return false
	}
	switch x := v.(type) {
	case *ssa.Phi:
		return alts(x.Edges)
	case *ssa.Extract:
		return derives(x.Tuple, s, seen, depth+1)
	case *ssa.ChangeInterface:
		return derives(x.X, s, seen, depth+1)
	case *ssa.ChangeType:
		return derives(x.X, s, seen, depth+1)
	case *ssa.Convert:
		return derives(x.X, s, seen, depth+1)
	case *ssa.MakeInterface:
		return derives(x.X, s, seen, depth+1)
	case *ssa.Slice:
		return derives(x.X, s, seen, depth+1)
	case *ssa.TypeAssert:
		return derives(x.X, s, seen, depth+1)
	case *ssa.Field:
		return derives(x.X, s, seen, depth+1)
	case *ssa.UnOp:
		if x.Op == token.MUL {
			// load: from a local alloc -> the values stored into it
			switch a := x.X.(type) {
			case *ssa.Alloc:
				var vals []ssa.Value
				for _, ref := range *a.Referrers() {
					if st, ok := ref.(*ssa.Store); ok && st.Addr == a {
						vals = append(vals, st.Val)
					}
				}
				if len(vals) == 0 {
					return false
				}
				return alts(vals)
			case *ssa.FieldAddr:
				if len(s.Family) > 0 {
					if st := derefStruct(a.X.Type()); st != nil {
						if vals := StoresToField(s.Family, st, a.Field); len(vals) > 0 {
							return alts(vals)
						}
					}
				}
				return derives(a, s, seen, depth+1)
			case *ssa.IndexAddr:
				return derives(a, s, seen, depth+1)
			}
			return derives(x.X, s, seen, depth+1)
		}
		return derives(x.X, s, seen, depth+1)
	case *ssa.FieldAddr:
		return derives(x.X, s, seen, depth+1)
	case *ssa.IndexAddr:
		return derives(x.X, s, seen, depth+1)
	case *ssa.Alloc:
		// an array/struct literal: the values stored into it or into its elements
		var vals []ssa.Value
		for _, ref := range *x.Referrers() {
			switch r := ref.(type) {
			case *ssa.Store:
				if r.Addr == ssa.Value(x) {
					vals = append(vals, r.Val)
				}
			case *ssa.IndexAddr:
				for _, r2 := range *r.Referrers() {
					if st, ok := r2.(*ssa.Store); ok && st.Addr == ssa.Value(r) {
						vals = append(vals, st.Val)
					}
				}
			case *ssa.FieldAddr:
				for _, r2 := range *r.Referrers() {
					if st, ok := r2.(*ssa.Store); ok && st.Addr == ssa.Value(r) {
						vals = append(vals, st.Val)
					}
				}
			}
		}
		if len(vals) == 0 {
			return false
		}
		// for aggregate literals one derived element suffices (the aggregate contains it)
		for _, e := range vals {
			if derives(e, s, seen, depth+1) {
				return true
			}
		}
		return false
	case *ssa.Call:
		if s.Through != nil {
			idxs := s.Through(x)
			if idxs != nil {
				var vals []ssa.Value
				args := x.Call.Args
				for _, i := range idxs {
					if i < len(args) {
						vals = append(vals, args[i])
					}
				}
				// for "through" calls one derived argument suffices unless All
				return alts(vals)
			}
		}
		return false
	}
	return false
}

// IsResultOf builds a source predicate: v is result #idx (or any if idx<0) of a call matching name.
func IsResultOf(match func(string) bool, idx int) func(ssa.Value) bool {
	return func(v ssa.Value) bool {
		c, i := CallOf(v)
		if c == nil {
			return false
		}
		if idx >= 0 && i != idx {
			// a single-result call reports index 0
			return false
		}
		return match(CalleeName(c))
	}
}

// ThroughNames builds a Through function following the given argument index for named callees.
func ThroughNames(m map[string][]int) func(ssa.CallInstruction) []int {
	return func(c ssa.CallInstruction) []int {
		return m[CalleeName(c)]
	}
}

// FieldStores lists stores in fn (incl. closures) to a struct field with the given name whose
// owning struct type name (short) has the given suffix.
func FieldStores(fn *ssa.Function, structSuffix, field string) []*ssa.Store {
	var out []*ssa.Store
	var visit func(f *ssa.Function)
	visit = func(f *ssa.Function) {
		for _, b := range f.Blocks {
			for _, ins := range b.Instrs {
				st, ok := ins.(*ssa.Store)
				if !ok {
					continue
				}
				fa, ok := st.Addr.(*ssa.FieldAddr)
				if !ok {
					continue
				}
				sty := derefStruct(fa.X.Type())
				if sty == nil || sty.Field(fa.Field).Name() != field {
					continue
				}
				if !hasSuffix(Short(typeString(fa.X.Type())), structSuffix) {
					continue
				}
				out = append(out, st)
			}
		}
		for _, a := range f.AnonFuncs {
			visit(a)
		}
	}
	visit(fn)
	return out
}
