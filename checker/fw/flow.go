package fw

import (
	"go/token"
	"go/types"
	"strings"

	"golang.org/x/tools/go/ssa"
)

// ---- value provenance (backwards def-use within one function) ----

// FlowSpec configures DerivesFrom.
type FlowSpec struct {
	// IsSource: v is an acceptable origin.
	IsSource func(v ssa.Value) bool
	// IsSourceIn (optional): like IsSource, with the frame the value lives in.
	IsSourceIn func(v ssa.Value, fr *Frame) bool
	// Through: calls whose result is considered derived from (some of) their arguments:
	// returns the argument indices to follow (nil = opaque call, not followed).
	Through func(c ssa.CallInstruction) []int
	// All: every alternative (phi edges, all stores to a local) must derive from a source.
	// Otherwise one alternative suffices.
	All bool
	// Family (optional): the functions (a function and its closures) in which stores to
	// struct fields are looked up when a value is loaded from a field: a load of T.f then
	// derives from what is stored to T.f anywhere in the family (field-sensitive,
	// object-insensitive).
	Family []*ssa.Function
	// Arith: a binary operation (string concatenation, addition, ...) derives from its
	// operands (one suffices unless All).
	Arith bool
	// NoInter disables following calls to repository functions into their bodies.
	NoInter bool
	// Use (optional): the instruction that consumes the value. Alternatives of a phi that
	// cannot reach it (see PhiEdgeReaches) are not considered.
	Use ssa.Instruction
	// Visit (optional) is told about every call the walk passes through (Through calls
	// and entered helpers), with the frame in which the call occurs.
	Visit func(c ssa.CallInstruction, fr *Frame)
}

// Frame is one level of inter-procedural context: the walk entered Callee at Site.
type Frame struct {
	Site   *ssa.Call
	Callee *ssa.Function
	Parent *Frame
}

func (fr *Frame) depth() int {
	n := 0
	for f := fr; f != nil; f = f.Parent {
		n++
	}
	return n
}

func (fr *Frame) has(fn *ssa.Function) bool {
	for f := fr; f != nil; f = f.Parent {
		if f.Callee == fn {
			return true
		}
	}
	return false
}

// ArgOf maps a parameter of the frame's callee to the argument at the call site.
func (fr *Frame) ArgOf(p *ssa.Parameter) (ssa.Value, bool) {
	if fr == nil || p.Parent() != fr.Callee {
		return nil, false
	}
	for i, q := range fr.Callee.Params {
		if q == p && i < len(fr.Site.Call.Args) {
			return fr.Site.Call.Args[i], true
		}
	}
	return nil, false
}

// Followable: a statically resolved call to a repository function with a body that the
// provenance walk may enter (helpers extracted from the analysed function are transparent).
func Followable(c *ssa.Call, fr *Frame) *ssa.Function {
	if c.Call.IsInvoke() {
		return nil
	}
	fn := c.Call.StaticCallee()
	if fn == nil || len(fn.Blocks) == 0 {
		return nil
	}
	// an instantiation of a generic repository function belongs to no package: its origin does
	pk := fn.Pkg
	if pk == nil {
		if o := fn.Origin(); o != nil {
			pk = o.Pkg
		}
	}
	if pk == nil || pk.Pkg == nil || !strings.HasPrefix(pk.Pkg.Path(), ModPath) {
		return nil
	}
	if fr.has(fn) || fr.depth() >= 4 {
		return nil
	}
	return fn
}

// helperReturns lists, for result #idx of fn, the returned values; returns that hand back
// a constant zero value together with a non-nil error (the failure exits) are skipped.
func helperReturns(fn *ssa.Function, idx int) []ssa.Value {
	var out []ssa.Value
	ei := ErrIndex(fn)
	for _, r := range Returns(fn) {
		if idx >= len(r.Results) {
			continue
		}
		if fn.Recover != nil && r.Block() == fn.Recover {
			continue // the synthetic exit taken after a recovered panic re-reads the spilled results
		}
		v := LoadOrigin(r.Results[idx]) // results spilled because of a defer
		if ei >= 0 && ei != idx && ei < len(r.Results) {
			if _, isC := v.(*ssa.Const); isC && !isNilConst(LoadOrigin(r.Results[ei])) {
				continue
			}
		}
		// "nothing to return": `return nil, nil` (callers test the value before using it)
		if ei >= 0 && ei != idx && ei < len(r.Results) && isNilConst(v) && isNilConst(LoadOrigin(r.Results[ei])) {
			continue
		}
		// the comma-ok idiom: `return zero, false`
		if last := len(r.Results) - 1; last != idx && last >= 1 && isBoolConst(LoadOrigin(r.Results[last]), false) {
			if _, isC := v.(*ssa.Const); isC {
				continue
			}
		}
		out = append(out, v)
	}
	return out
}

// FamilyOf returns fn and all its (transitively) nested anonymous functions.
func FamilyOf(fn *ssa.Function) []*ssa.Function {
	out := []*ssa.Function{fn}
	for _, a := range fn.AnonFuncs {
		out = append(out, FamilyOf(a)...)
	}
	return out
}

// StoresToField lists values stored to field #idx of struct type st within the family.
func StoresToField(family []*ssa.Function, st *types.Struct, idx int) []ssa.Value {
	var out []ssa.Value
	for _, f := range family {
		for _, b := range f.Blocks {
			for _, ins := range b.Instrs {
				s, ok := ins.(*ssa.Store)
				if !ok {
					continue
				}
				fa, ok := s.Addr.(*ssa.FieldAddr)
				if !ok || fa.Field != idx {
					continue
				}
				if ds := derefStruct(fa.X.Type()); ds != nil && types.Identical(ds, st) {
					out = append(out, s.Val)
				}
			}
		}
	}
	return out
}

// DerivesFrom reports whether v derives from a source under spec.
func DerivesFrom(v ssa.Value, spec FlowSpec) bool {
	return derives(v, spec, map[seenKey]bool{}, 0, nil)
}

// DerivesFromIn is DerivesFrom for a value that lives in the given frame.
func DerivesFromIn(v ssa.Value, fr *Frame, spec FlowSpec) bool {
	return derives(v, spec, map[seenKey]bool{}, 0, fr)
}

type seenKey struct {
	v  ssa.Value
	fr *Frame
}

func derives(v ssa.Value, s FlowSpec, seen map[seenKey]bool, depth int, fr *Frame) bool {
	if v == nil || depth > 60 {
		return false
	}
	if s.IsSource != nil && s.IsSource(v) {
		return true
	}
	if s.IsSourceIn != nil && s.IsSourceIn(v, fr) {
		return true
	}
	if seen[seenKey{v, fr}] {
		return s.All // a cycle adds no new origin
	}
	seen[seenKey{v, fr}] = true
	enter := func(call *ssa.Call, idx int) (bool, bool) {
		if s.NoInter {
			return false, false
		}
		callee := Followable(call, fr)
		if callee == nil || exportedFunc(callee) {
			// exported functions are API with a meaning of their own: their result is an origin
			return false, false
		}
		vals := helperReturns(callee, idx)
		if len(vals) == 0 {
			return false, true
		}
		if s.Visit != nil {
			s.Visit(call, fr)
		}
		nf := &Frame{Site: call, Callee: callee, Parent: fr}
		if s.All {
			for _, x := range vals {
				if !derives(x, s, seen, depth+1, nf) {
					return false, true
				}
			}
			return true, true
		}
		for _, x := range vals {
			if derives(x, s, seen, depth+1, nf) {
				return true, true
			}
		}
		return false, true
	}
	alts := func(vals []ssa.Value) bool {
		if len(vals) == 0 {
			return false
		}
		if s.All {
			for _, x := range vals {
				if !derives(x, s, seen, depth+1, fr) {
					return false
				}
			}
			return true
		}
		for _, x := range vals {
			if derives(x, s, seen, depth+1, fr) {
				return true
			}
		}
		return false
	}
	switch x := v.(type) {
	case *ssa.Phi:
		if s.Use != nil && fr == nil && s.Use.Parent() == x.Parent() {
			var live []ssa.Value
			for i, e := range x.Edges {
				if PhiEdgeReaches(x, i, s.Use) {
					live = append(live, e)
				}
			}
			if len(live) > 0 {
				return alts(live)
			}
		}
		return alts(x.Edges)
	case *ssa.Extract:
		if call, ok := x.Tuple.(*ssa.Call); ok {
			if s.Through == nil || s.Through(call) == nil {
				if res, entered := enter(call, x.Index); entered {
					return res
				}
			}
		}
		return derives(x.Tuple, s, seen, depth+1, fr)
	case *ssa.Parameter:
		if arg, ok := fr.ArgOf(x); ok {
			return derives(arg, s, seen, depth+1, fr.Parent)
		}
		return false
	case *ssa.BinOp:
		if s.Arith {
			return alts([]ssa.Value{x.X, x.Y})
		}
		return false
	case *ssa.ChangeInterface:
		return derives(x.X, s, seen, depth+1, fr)
	case *ssa.ChangeType:
		return derives(x.X, s, seen, depth+1, fr)
	case *ssa.Convert:
		return derives(x.X, s, seen, depth+1, fr)
	case *ssa.MakeInterface:
		return derives(x.X, s, seen, depth+1, fr)
	case *ssa.Slice:
		return derives(x.X, s, seen, depth+1, fr)
	case *ssa.TypeAssert:
		return derives(x.X, s, seen, depth+1, fr)
	case *ssa.Field:
		return derives(x.X, s, seen, depth+1, fr)
	case *ssa.Index:
		return derives(x.X, s, seen, depth+1, fr)
	case *ssa.UnOp:
		if x.Op == token.MUL {
			// a load that directly follows the store it reads (spilled results, `x := v; use(x)`)
			if o := LoadOrigin(x); o != ssa.Value(x) {
				return derives(o, s, seen, depth+1, fr)
			}
			// load: from a local alloc -> the values stored into it
			switch a := x.X.(type) {
			case *ssa.Alloc:
				var vals []ssa.Value
				for _, ref := range *a.Referrers() {
					if st, ok := ref.(*ssa.Store); ok && st.Addr == a {
						vals = append(vals, st.Val)
					}
				}
				if len(vals) == 0 {
					// an aggregate built element by element: see the Alloc case
					return derives(a, s, seen, depth+1, fr)
				}
				return alts(vals)
			case *ssa.FieldAddr:
				if len(s.Family) > 0 {
					if st := derefStruct(a.X.Type()); st != nil {
						if vals := StoresToField(s.Family, st, a.Field); len(vals) > 0 {
							return alts(vals)
						}
					}
				}
				return derives(a, s, seen, depth+1, fr)
			case *ssa.IndexAddr:
				return derives(a, s, seen, depth+1, fr)
			}
			return derives(x.X, s, seen, depth+1, fr)
		}
		return derives(x.X, s, seen, depth+1, fr)
	case *ssa.FieldAddr:
		return derives(x.X, s, seen, depth+1, fr)
	case *ssa.IndexAddr:
		return derives(x.X, s, seen, depth+1, fr)
	case *ssa.Alloc:
		// an array/struct literal: the values stored into it or into its elements
		var vals []ssa.Value
		for _, ref := range *x.Referrers() {
			switch r := ref.(type) {
			case *ssa.Store:
				if r.Addr == ssa.Value(x) {
					vals = append(vals, r.Val)
				}
			case *ssa.IndexAddr:
				for _, r2 := range *r.Referrers() {
					if st, ok := r2.(*ssa.Store); ok && st.Addr == ssa.Value(r) {
						vals = append(vals, st.Val)
					}
				}
			case *ssa.FieldAddr:
				for _, r2 := range *r.Referrers() {
					if st, ok := r2.(*ssa.Store); ok && st.Addr == ssa.Value(r) {
						vals = append(vals, st.Val)
					}
				}
			}
		}
		if len(vals) == 0 {
			return false
		}
		// for aggregate literals one derived element suffices (the aggregate contains it)
		for _, e := range vals {
			if derives(e, s, seen, depth+1, fr) {
				return true
			}
		}
		return false
	case *ssa.Call:
		if s.Through != nil {
			idxs := s.Through(x)
			if idxs != nil {
				var vals []ssa.Value
				args := x.Call.Args
				for _, i := range idxs {
					if i == -1 && x.Call.IsInvoke() {
						vals = append(vals, x.Call.Value) // the receiver of an interface call
						continue
					}
					if i >= 0 && i < len(args) {
						vals = append(vals, args[i])
					}
				}
				if s.Visit != nil {
					s.Visit(x, fr)
				}
				// for "through" calls one derived argument suffices unless All
				return alts(vals)
			}
		}
		if res, entered := enter(x, 0); entered {
			return res
		}
		return false
	}
	return false
}

// IsResultOf builds a source predicate: v is result #idx (or any if idx<0) of a call matching name.
func IsResultOf(match func(string) bool, idx int) func(ssa.Value) bool {
	return func(v ssa.Value) bool {
		c, i := CallOf(v)
		if c == nil {
			return false
		}
		if idx >= 0 && i != idx {
			// a single-result call reports index 0
			return false
		}
		return match(CalleeName(c))
	}
}

// ThroughNames builds a Through function following the given argument index for named callees.
func ThroughNames(m map[string][]int) func(ssa.CallInstruction) []int {
	return func(c ssa.CallInstruction) []int {
		return m[CalleeName(c)]
	}
}

// FieldStores lists stores in fn (incl. closures) to a struct field with the given name whose
// owning struct type name (short) has the given suffix.
func FieldStores(fn *ssa.Function, structSuffix, field string) []*ssa.Store {
	var out []*ssa.Store
	var visit func(f *ssa.Function)
	visit = func(f *ssa.Function) {
		for _, b := range f.Blocks {
			for _, ins := range b.Instrs {
				st, ok := ins.(*ssa.Store)
				if !ok {
					continue
				}
				fa, ok := st.Addr.(*ssa.FieldAddr)
				if !ok {
					continue
				}
				sty := derefStruct(fa.X.Type())
				if sty == nil || sty.Field(fa.Field).Name() != field {
					continue
				}
				if !hasSuffix(Short(typeString(fa.X.Type())), structSuffix) {
					continue
				}
				out = append(out, st)
			}
		}
		for _, a := range f.AnonFuncs {
			visit(a)
		}
	}
	visit(fn)
	return out
}

// ConstStringsIn resolves v (living in frame fr) to the set of constant strings it can be:
// a constant; a phi of such; an element of an array / slice literal of constants (the
// `for _, k := range []string{...}` idiom, also through a variadic or slice parameter of an
// entered helper). ok is false when some alternative is not a constant.
func ConstStringsIn(v ssa.Value, fr *Frame) (out []string, ok bool) {
	return constStrings(v, fr, 0)
}

func constStrings(v ssa.Value, fr *Frame, depth int) ([]string, bool) {
	if depth > 12 || v == nil {
		return nil, false
	}
	v = Unwrap(v)
	if s, ok := ConstString(v); ok {
		return []string{s}, true
	}
	switch x := v.(type) {
	case *ssa.Parameter:
		if arg, ok := fr.ArgOf(x); ok {
			return constStrings(arg, fr.Parent, depth+1)
		}
	case *ssa.Phi:
		var out []string
		for _, e := range x.Edges {
			if e == ssa.Value(x) {
				continue
			}
			r, ok := constStrings(e, fr, depth+1)
			if !ok {
				return nil, false
			}
			out = append(out, r...)
		}
		return out, len(out) > 0
	case *ssa.UnOp:
		if ia, ok := x.X.(*ssa.IndexAddr); ok {
			return constElems(ia.X, fr, depth+1)
		}
		if al, ok := x.X.(*ssa.Alloc); ok {
			var out []string
			for _, ref := range *al.Referrers() {
				if st, ok := ref.(*ssa.Store); ok && st.Addr == ssa.Value(al) {
					r, ok := constStrings(st.Val, fr, depth+1)
					if !ok {
						return nil, false
					}
					out = append(out, r...)
				}
			}
			return out, len(out) > 0
		}
	case *ssa.Index:
		return constElems(x.X, fr, depth+1)
	case *ssa.Extract:
		// range over a string-keyed/valued collection: next(iter) #2 is not resolved
		return nil, false
	}
	return nil, false
}

// constElems: the constant elements of the collection value x (array, slice).
func constElems(x ssa.Value, fr *Frame, depth int) ([]string, bool) {
	if depth > 12 {
		return nil, false
	}
	switch c := x.(type) {
	case *ssa.Slice:
		return constElems(c.X, fr, depth+1)
	case *ssa.Parameter:
		if arg, ok := fr.ArgOf(c); ok {
			return constElems(arg, fr.Parent, depth+1)
		}
	case *ssa.UnOp:
		// load of a whole array from an alloc, or of a package-level list
		return constElems(c.X, fr, depth+1)
	case *ssa.Global:
		if l, ok := globalStringLists[c]; ok {
			return append([]string(nil), l...), true
		}
		return nil, false
	case *ssa.Alloc:
		var out []string
		for _, ref := range *c.Referrers() {
			switch r := ref.(type) {
			case *ssa.IndexAddr:
				for _, r2 := range *r.Referrers() {
					if st, ok := r2.(*ssa.Store); ok && st.Addr == ssa.Value(r) {
						s, ok := constStrings(st.Val, fr, depth+1)
						if !ok {
							return nil, false
						}
						out = append(out, s...)
					}
				}
			case *ssa.Store:
				if r.Addr == ssa.Value(c) {
					// whole-array store of a constant aggregate is not representable: give up
					if _, isC := r.Val.(*ssa.Const); !isC {
						return nil, false
					}
				}
			}
		}
		return out, len(out) > 0
	case *ssa.Phi:
		var out []string
		for _, e := range c.Edges {
			r, ok := constElems(e, fr, depth+1)
			if !ok {
				return nil, false
			}
			out = append(out, r...)
		}
		return out, len(out) > 0
	}
	return nil, false
}

// DeepCalls lists the calls matching `match` in fn, its closures and - transitively, up to
// three levels - the repository functions it calls statically, each with the frame through
// which it was reached, so that arguments can be resolved in context. `stopAt` (optional)
// names callees that are not entered (they are analysed as anchors in their own right).
type DeepCall struct {
	Call ssa.CallInstruction
	Fr   *Frame
}

func DeepCalls(fn *ssa.Function, match func(string) bool, stopAt func(*ssa.Function) bool) []DeepCall {
	var out []DeepCall
	var visit func(f *ssa.Function, fr *Frame)
	visit = func(f *ssa.Function, fr *Frame) {
		for _, call := range Calls(f) {
			if match(CalleeName(call)) {
				out = append(out, DeepCall{call, fr})
				continue
			}
			if cc, ok := call.(*ssa.Call); ok {
				if callee := Followable(cc, fr); callee != nil && (stopAt == nil || !stopAt(callee)) {
					visit(callee, &Frame{Site: cc, Callee: callee, Parent: fr})
				}
			}
		}
		for _, a := range f.AnonFuncs {
			visit(a, fr)
		}
	}
	visit(fn, nil)
	return out
}

// AllDeepCalls lists every call in fn's region (fn, its closures and the unexported helpers
// entered through frames), each with its frame; unlike DeepCalls a listed call is also entered.
func AllDeepCalls(fn *ssa.Function, stopAt func(*ssa.Function) bool) []DeepCall {
	var out []DeepCall
	var visit func(f *ssa.Function, fr *Frame)
	visit = func(f *ssa.Function, fr *Frame) {
		for _, call := range Calls(f) {
			out = append(out, DeepCall{call, fr})
			if cc, ok := call.(*ssa.Call); ok {
				if callee := Followable(cc, fr); callee != nil && (stopAt == nil || !stopAt(callee)) {
					visit(callee, &Frame{Site: cc, Callee: callee, Parent: fr})
				}
			}
		}
		for _, a := range f.AnonFuncs {
			visit(a, fr)
		}
	}
	visit(fn, nil)
	return out
}

// RegionOf returns fn, its closures and - transitively, up to three levels - the unexported
// repository functions they call statically (helpers extracted from fn), each once.
// stop (optional) names further callees that are not entered.
func RegionOf(fn *ssa.Function, stop func(*ssa.Function) bool) []*ssa.Function {
	seen := map[*ssa.Function]bool{}
	var out []*ssa.Function
	var visit func(f *ssa.Function, fr *Frame)
	visit = func(f *ssa.Function, fr *Frame) {
		if seen[f] {
			return
		}
		seen[f] = true
		out = append(out, f)
		for _, call := range Calls(f) {
			if cc, ok := call.(*ssa.Call); ok {
				if callee := Followable(cc, fr); callee != nil && !exportedFunc(callee) && (stop == nil || !stop(callee)) {
					visit(callee, &Frame{Site: cc, Callee: callee, Parent: fr})
				}
			}
		}
		for _, a := range f.AnonFuncs {
			visit(a, fr)
		}
	}
	visit(fn, nil)
	return out
}

func exportedFunc(f *ssa.Function) bool {
	if o := f.Origin(); o != nil && o != f {
		f = o
	}
	return f.Object() != nil && f.Object().Exported()
}

// StructFieldValue finds, for a struct value v built from a literal (directly, or by a
// repository helper returning the literal), what is stored into the named field; the result
// is resolved through helper parameters to the caller's argument. found=false when the
// struct is not built that way; val=nil when the field is never set (zero value).
func StructFieldValue(v ssa.Value, fr *Frame, field string, depth int) (val ssa.Value, vfr *Frame, found bool) {
	if v == nil || depth > 8 {
		return nil, nil, false
	}
	resolve := func(x ssa.Value, f *Frame) (ssa.Value, *Frame) {
		for i := 0; i < 6; i++ {
			p, ok := x.(*ssa.Parameter)
			if !ok {
				break
			}
			arg, ok := f.ArgOf(p)
			if !ok {
				break
			}
			x, f = arg, f.Parent
		}
		return x, f
	}
	switch x := v.(type) {
	case *ssa.MakeInterface:
		return StructFieldValue(x.X, fr, field, depth+1)
	case *ssa.ChangeInterface:
		return StructFieldValue(x.X, fr, field, depth+1)
	case *ssa.UnOp:
		if x.Op == token.MUL {
			return StructFieldValue(x.X, fr, field, depth+1)
		}
	case *ssa.Alloc:
		st := derefStruct(x.Type())
		if st == nil {
			return nil, nil, false
		}
		for _, ref := range *x.Referrers() {
			fa, ok := ref.(*ssa.FieldAddr)
			if !ok || st.Field(fa.Field).Name() != field {
				continue
			}
			for _, r2 := range *fa.Referrers() {
				if s, ok := r2.(*ssa.Store); ok && s.Addr == ssa.Value(fa) {
					rv, rf := resolve(s.Val, fr)
					return rv, rf, true
				}
			}
		}
		return nil, fr, true
	case *ssa.Call:
		if callee := Followable(x, fr); callee != nil {
			nf := &Frame{Site: x, Callee: callee, Parent: fr}
			for _, rv := range helperReturns(callee, 0) {
				if val, vfr, ok := StructFieldValue(rv, nf, field, depth+1); ok {
					return val, vfr, true
				}
			}
		}
	case *ssa.Extract:
		return StructFieldValue(x.Tuple, fr, field, depth+1)
	}
	return nil, nil, false
}

// Tri is a three-valued answer.
type Tri int

const (
	No Tri = iota
	Yes
	Unknown
)

func (t Tri) String() string { return [...]string{"no", "yes", "unknown"}[t] }

// Derives3 is DerivesFrom with a three-valued answer: Yes when the value derives from a
// source (as DerivesFrom); No when the walk reached only origins it understands (parameters
// of the analysed function, constants, fresh allocations, results of calls into other
// modules) and none of them is a source; Unknown when it met something it cannot see through
// (a repository call it could not enter, an interface call, a global, a free variable, an
// unsupported instruction). Rules alarm only on No.
func Derives3(v ssa.Value, spec FlowSpec) Tri {
	return Derives3In(v, nil, spec)
}

func Derives3In(v ssa.Value, fr *Frame, spec FlowSpec) Tri {
	if derives(v, spec, map[seenKey]bool{}, 0, fr) {
		return Yes
	}
	// second walk: is every origin understood?
	opaque := false
	probe := spec
	probe.All = false
	// a parameter of a function that is not on the frame chain (reached through the stores of a
	// field family): its argument is not known here
	probe.IsSourceIn = func(x ssa.Value, xfr *Frame) bool {
		if p, ok := x.(*ssa.Parameter); ok && len(spec.Family) > 0 {
			if _, found := xfr.ArgOf(p); !found && (xfr != nil || p.Parent() != rootFunc(v, fr)) {
				opaque = true
			}
		}
		return false
	}
	probe.IsSource = func(x ssa.Value) bool {
		switch y := x.(type) {
		case *ssa.Global, *ssa.FreeVar, *ssa.Lookup, *ssa.Next, *ssa.TypeAssert:
			opaque = true
		case *ssa.Call:
			if spec.Through != nil && spec.Through(y) != nil {
				return false
			}
			if y.Call.IsInvoke() {
				opaque = true
				return false
			}
			if callee := y.Call.StaticCallee(); callee != nil && callee.Pkg != nil && callee.Pkg.Pkg != nil && strings.HasPrefix(callee.Pkg.Pkg.Path(), ModPath) {
				if !exportedFunc(callee) && Followable(y, nil) == nil {
					opaque = true
				}
			} else if callee == nil {
				opaque = true // dynamic call
			}
		}
		return false
	}
	derives(v, probe, map[seenKey]bool{}, 0, fr)
	if opaque {
		return Unknown
	}
	return No
}

// rootFunc: the function at the root of the frame chain fr (v's own function without frames).
func rootFunc(v ssa.Value, fr *Frame) *ssa.Function {
	if fr == nil {
		return v.Parent()
	}
	for fr.Parent != nil {
		fr = fr.Parent
	}
	return fr.Site.Parent()
}

// CheckDerives records a provenance obligation with the three-valued policy: discharged on
// Yes, violation on No, undecided on Unknown.
func (c *Ctx) CheckDerives(v ssa.Value, fr *Frame, spec FlowSpec, rule, construct, pos, okDetail, failDetail string) Tri {
	t := Derives3In(v, fr, spec)
	switch t {
	case Yes:
		c.Ok(rule, construct, pos, okDetail)
	case No:
		c.Fail(rule, construct, pos, failDetail)
	default:
		c.add(rule, construct, pos, Undecided, "provenance not fully resolved: "+failDetail)
	}
	return t
}
