package fw

import (
	"sort"
	"strings"

	"golang.org/x/tools/go/ssa"
)

// ---- engine E: locksets (must-hold), per function ----

// LockOp describes a Lock/Unlock call.
type LockOp struct {
	Instr    ssa.Instruction
	Lock     string // identity of the mutex: structural signature of its address
	Acquire  bool
	Deferred bool
	Addr     ssa.Value
}

func lockOpOf(ins ssa.Instruction) (LockOp, bool) {
	ci, ok := ins.(ssa.CallInstruction)
	if !ok {
		return LockOp{}, false
	}
	n := CalleeName(ci)
	var acquire bool
	mode := ""
	switch n {
	case "(*sync.Mutex).Lock", "(*sync.RWMutex).Lock":
		acquire = true
	case "(*sync.RWMutex).RLock":
		acquire = true
		mode = "#r" // a read lock: excludes writers only
	case "(*sync.Mutex).Unlock", "(*sync.RWMutex).Unlock":
		acquire = false
	case "(*sync.RWMutex).RUnlock":
		acquire = false
		mode = "#r"
	default:
		return LockOp{}, false
	}
	if len(ci.Common().Args) == 0 {
		return LockOp{}, false
	}
	addr := ci.Common().Args[0]
	_, deferred := ins.(*ssa.Defer)
	return LockOp{Instr: ins, Lock: strings.TrimPrefix(Sig(addr), "&") + mode, Acquire: acquire, Deferred: deferred, Addr: addr}, true
}

// LockOps lists the lock operations of fn.
func LockOps(fn *ssa.Function) []LockOp {
	var out []LockOp
	for _, b := range fn.Blocks {
		for _, ins := range b.Instrs {
			if op, ok := lockOpOf(ins); ok {
				out = append(out, op)
			}
		}
	}
	return out
}

// HeldAt computes, for every instruction of fn, the set of locks that are held on every path
// reaching it (must-hold). A deferred Unlock keeps the lock held until the function exits.
func HeldAt(fn *ssa.Function) map[ssa.Instruction]map[string]bool {
	return HeldAtFrom(fn, nil)
}

// HeldAtFrom is HeldAt with a set of locks already held on entry (a helper that is only ever
// called with the mutex held, see EntryLocks).
func HeldAtFrom(fn *ssa.Function, entry map[string]bool) map[ssa.Instruction]map[string]bool {
	return heldAt(fn, entry, false)
}

// MayHeldAt computes, for every instruction, the locks held on at least one path reaching it
// (may-hold): the basis of re-entrancy (self-deadlock) rules.
func MayHeldAt(fn *ssa.Function, entry map[string]bool) map[ssa.Instruction]map[string]bool {
	return heldAt(fn, entry, true)
}

func heldAt(fn *ssa.Function, entry map[string]bool, may bool) map[ssa.Instruction]map[string]bool {
	type set = map[string]bool
	in := map[*ssa.BasicBlock]set{}
	all := set{}
	for _, op := range LockOps(fn) {
		all[op.Lock] = true
	}
	for k := range entry {
		all[k] = true
	}
	top := func() set {
		s := set{}
		for k := range all {
			s[k] = true
		}
		return s
	}
	for i, b := range fn.Blocks {
		if i == 0 {
			in[b] = set{}
			for k := range entry {
				in[b][k] = true
			}
		} else if may {
			in[b] = set{}
		} else {
			in[b] = top()
		}
	}
	transfer := func(b *ssa.BasicBlock, s set, record map[ssa.Instruction]set) set {
		cur := set{}
		for k := range s {
			cur[k] = true
		}
		for _, ins := range b.Instrs {
			if record != nil {
				cp := set{}
				for k := range cur {
					cp[k] = true
				}
				record[ins] = cp
			}
			if op, ok := lockOpOf(ins); ok && !op.Deferred {
				if op.Acquire {
					cur[op.Lock] = true
				} else {
					delete(cur, op.Lock)
				}
			}
		}
		return cur
	}
	changed := true
	for iter := 0; changed && iter < 50; iter++ {
		changed = false
		for i, b := range fn.Blocks {
			if i == 0 {
				continue
			}
			var meet set
			for _, p := range b.Preds {
				out := transfer(p, in[p], nil)
				if meet == nil {
					meet = out
				} else if may {
					for k := range out {
						meet[k] = true
					}
				} else {
					for k := range meet {
						if !out[k] {
							delete(meet, k)
						}
					}
				}
			}
			if meet == nil {
				meet = set{}
			}
			if len(meet) != len(in[b]) {
				in[b] = meet
				changed = true
			} else {
				for k := range meet {
					if !in[b][k] {
						in[b] = meet
						changed = true
					}
				}
			}
		}
	}
	res := map[ssa.Instruction]map[string]bool{}
	for _, b := range fn.Blocks {
		transfer(b, in[b], res)
	}
	return res
}

// UnpairedLocks: Lock operations from which a Return is reachable without an Unlock (direct or deferred) of the same lock.
func UnpairedLocks(fn *ssa.Function) []LockOp {
	ops := LockOps(fn)
	var bad []LockOp
	for _, a := range ops {
		if !a.Acquire {
			continue
		}
		var rel []ssa.Instruction
		for _, o := range ops {
			if !o.Acquire && o.Lock == a.Lock {
				rel = append(rel, o.Instr)
			}
		}
		for _, r := range Returns(fn) {
			if pathAfterInstr(a.Instr, rel, r) {
				bad = append(bad, a)
				break
			}
		}
	}
	return bad
}

// pathAfterInstr: some path starting right after `from` reaches `to` without executing any of `must`.
func pathAfterInstr(from ssa.Instruction, must []ssa.Instruction, to ssa.Instruction) bool {
	b := from.Block()
	idx := instrIndex(from)
	for i := idx + 1; i < len(b.Instrs); i++ {
		for _, m := range must {
			if b.Instrs[i] == m {
				return false
			}
		}
		if b.Instrs[i] == to {
			return true
		}
	}
	for _, s := range b.Succs {
		if PathAvoiding(s, must, to) {
			return true
		}
	}
	return false
}

// PathAfter is the exported form.
func PathAfter(from ssa.Instruction, must []ssa.Instruction, to ssa.Instruction) bool {
	return pathAfterInstr(from, must, to)
}

// SortedLocks renders a lock set.
func SortedLocks(m map[string]bool) string {
	var out []string
	for k := range m {
		out = append(out, k)
	}
	sort.Strings(out)
	return strings.Join(out, ",")
}

// EntryLocks: the locks held at every call site of the unexported function fn (translated to
// fn's own naming: a lock `recv.mutex` of the caller is `recv.mutex` of a callee invoked on the
// same receiver). Empty when fn is exported, has no static call site, is used as a value, or
// is started with go/defer. callers lists every source function of the program.
func EntryLocks(fn *ssa.Function, callers []*ssa.Function, depth int) map[string]bool {
	if fn == nil || exportedFunc(fn) || depth > 2 {
		return nil
	}
	var result map[string]bool
	sites := 0
	for _, caller := range callers {
		if caller == fn {
			continue
		}
		var held map[ssa.Instruction]map[string]bool
		for _, b := range caller.Blocks {
			for _, ins := range b.Instrs {
				// used as a value: unknown callers
				if _, isCall := ins.(ssa.CallInstruction); !isCall {
					for _, op := range ins.Operands(nil) {
						if *op == ssa.Value(fn) {
							return nil
						}
					}
					continue
				}
				ci := ins.(ssa.CallInstruction)
				if ci.Common().StaticCallee() != fn {
					for _, a := range ci.Common().Args {
						if a == ssa.Value(fn) {
							return nil
						}
					}
					continue
				}
				if _, isCallInstr := ins.(*ssa.Call); !isCallInstr {
					return nil // go / defer
				}
				sites++
				if held == nil {
					held = HeldAtFrom(caller, EntryLocks(caller, callers, depth+1))
				}
				here := map[string]bool{}
				for l := range held[ins] {
					for i, p := range fn.Params {
						if i >= len(ci.Common().Args) {
							break
						}
						a := strings.TrimPrefix(Sig(ci.Common().Args[i]), "&")
						if strings.HasPrefix(l, a+".") {
							here[strings.TrimPrefix(Sig(p), "&")+strings.TrimPrefix(l, a)] = true
						}
					}
				}
				if result == nil {
					result = here
				} else {
					for k := range result {
						if !here[k] {
							delete(result, k)
						}
					}
				}
			}
		}
	}
	if sites == 0 {
		return nil
	}
	return result
}
