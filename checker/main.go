// gmslverif: static verifier for the twenty properties of /verif/properties.jsonl.
package main

import (
	"runtime/debug"
	"encoding/json"
	"flag"
	"fmt"
	"os"
	"path/filepath"
	"sort"
	"strconv"
	"strings"

	"gmslverif/fw"
	"gmslverif/props"
)

func usage() {
	fmt.Fprintln(os.Stderr, "usage: gmslverif check <Cnn> [--tier quick|thorough] [--repo dir] [--verif dir]\n       gmslverif list\n       gmslverif explain <replay.json>")
	os.Exit(2)
}

func main() {
	if len(os.Args) < 2 {
		usage()
	}
	switch os.Args[1] {
	case "list":
		ids := make([]string, 0, len(props.All))
		for id := range props.All {
			ids = append(ids, id)
		}
		sort.Strings(ids)
		for _, id := range ids {
			fmt.Println(id)
		}
	case "explain":
		if len(os.Args) < 3 {
			usage()
		}
		b, err := os.ReadFile(os.Args[2])
		if err != nil {
			fmt.Println(err)
			os.Exit(2)
		}
		fmt.Println(string(b))
	case "dump":
		// debugging aid: gmslverif dump <func spec> [--repo dir]
		if len(os.Args) < 3 {
			usage()
		}
		repo := envOr("GMSL_REPO", "/repo")
		if len(os.Args) >= 5 && os.Args[3] == "--repo" {
			repo = os.Args[4]
		}
		prog, err := fw.Load(fw.LoadOpts{Dir: repo, Inline: os.Getenv("GMSL_INLINE") != "", KeepName: props.KeepName})
		if err != nil {
			fmt.Println(err)
			os.Exit(2)
		}
		if os.Getenv("GMSL_INDEX") != "" {
			fw.DumpIndexSites(prog, os.Args[2])
		} else if os.Args[2] == "panics" {
			fw.DumpPanics(prog)
		} else if os.Getenv("GMSL_TABLE") != "" {
			fw.DumpTable(prog, os.Args[2], -1)
		} else {
			fw.DumpFunc(prog, os.Args[2])
		}
	case "gen-params":
		// writes the reference parameter table (props/refparams.json) from the tree at --repo
		repo := envOr("GMSL_REPO", "/repo")
		prog, err := fw.Load(fw.LoadOpts{Dir: repo})
		if err != nil {
			fmt.Println(err)
			os.Exit(2)
		}
		b, _ := json.MarshalIndent(fw.DumpParams(prog), "", " ")
		fmt.Println(string(b))
	case "inline-dump":
		// debugging aid: gmslverif inline-dump <func name substring> [--repo dir]: the inlined view of a function
		if len(os.Args) < 3 {
			usage()
		}
		repo := envOr("GMSL_REPO", "/repo")
		if len(os.Args) >= 5 && os.Args[3] == "--repo" {
			repo = os.Args[4]
		}
		prog, err := fw.Load(fw.LoadOpts{Dir: repo, Inline: true, KeepName: props.KeepName})
		if err != nil {
			fmt.Println(err)
			os.Exit(2)
		}
		fw.DumpInlined(prog, os.Args[2])
	case "check":
		if len(os.Args) < 3 {
			usage()
		}
		id := os.Args[2]
		fs := flag.NewFlagSet("check", flag.ExitOnError)
		tier := fs.String("tier", envOr("VERIF_TIER", "quick"), "quick|thorough")
		repo := fs.String("repo", envOr("GMSL_REPO", "/repo"), "repository directory")
		verif := fs.String("verif", envOr("GMSL_VERIF", defaultVerif()), "verif directory (evidence, out, known_findings.json)")
		_ = fs.Parse(os.Args[3:])
		if *tier != "quick" && *tier != "thorough" {
			*tier = "quick"
		}
		os.Exit(run(id, *tier, *repo, *verif))
	default:
		usage()
	}
}

func envOr(k, d string) string {
	if v := os.Getenv(k); v != "" {
		return v
	}
	return d
}

func defaultVerif() string {
	exe, err := os.Executable()
	if err == nil {
		d := filepath.Dir(filepath.Dir(exe))
		if _, err := os.Stat(filepath.Join(d, "properties.jsonl")); err == nil {
			return d
		}
	}
	return "/verif"
}

// runAll is a development aid for mutation sweeps: one load, every property, quick tier.
func runAll(repo, verif string) int {
	prog, err := fw.Load(fw.LoadOpts{Dir: repo})
	if err != nil {
		fmt.Println("UNDECIDED all: cannot load", err)
		return 1
	}
	ids := make([]string, 0, len(props.All))
	for id := range props.All {
		ids = append(ids, id)
	}
	sort.Strings(ids)
	rc := 0
	ctxs := map[string]*fw.Ctx{}
	for _, id := range ids {
		c := fw.NewCtx(prog, id, "quick")
		func() {
			defer func() {
				if r := recover(); r != nil {
					// a crash of the analyser says nothing about the code under analysis: not decided
					// (the unchanged tree is required to run without one: see the vacuity guards)
					c.Undecided("internal", "analyser panic", fmt.Sprint(r))
				}
			}()
			props.All[id](c)
		}()
		ctxs[id] = c
	}
	// second pass: the same rules on the inlined view (one load)
	if os.Getenv("GMSL_NO_INLINE") == "" {
		if inl, err := fw.Load(fw.LoadOpts{Dir: repo, Inline: true, KeepName: props.KeepName}); err == nil {
			for _, id := range ids {
				c2 := fw.NewCtx(inl, id, "quick")
				func() {
					defer func() {
						if r := recover(); r != nil {
							c2.Undecided("internal", "analyser panic on the inlined view", fmt.Sprint(r))
						}
					}()
					props.All[id](c2)
				}()
				ctxs[id].CombineViews(c2)
			}
		} else {
			for _, id := range ids {
				ctxs[id].Undecided("load", "inlined view", err.Error())
			}
		}
	}
	for _, id := range ids {
		c := ctxs[id]
		r := c.Finish(verif, 0, "bin/gmslverif check all")
		fmt.Printf("--- %s exit=%d\n", id, r)
		if r != 0 {
			rc = 1
		}
	}
	return rc
}

func run(id, tier, repo, verif string) (code int) {
	if id == "all" {
		return runAll(repo, verif)
	}
	fn, ok := props.All[id]
	if !ok {
		fmt.Printf("unknown property %s\n", id)
		return 2
	}
	seed, _ := strconv.ParseInt(os.Getenv("VERIF_SEED"), 10, 64)
	cmd := "bin/gmslverif " + strings.Join(os.Args[1:], " ")
	fail := func(what string) int {
		// undecided at the loading stage: fails the check, with a replay file
		out := filepath.Join(verif, "out", id)
		_ = os.MkdirAll(out, 0o755)
		rp := filepath.Join(out, "load.json")
		_ = os.WriteFile(rp, []byte(fmt.Sprintf("{\"property\":%q,\"kind\":\"undecided\",\"detail\":%q}\n", id, what)), 0o644)
		fmt.Printf("UNDECIDED %s: %s\nVIOLATION property=%s replay=%s\n", id, what, id, rp)
		return 1
	}
	prog, err := fw.Load(fw.LoadOpts{Dir: repo})
	if err != nil {
		return fail("cannot load " + repo + ": " + err.Error())
	}
	c := fw.NewCtx(prog, id, tier)
	func() {
		defer func() {
			if r := recover(); r != nil {
				if os.Getenv("GMSL_DEBUG") != "" {
					debug.PrintStack()
				}
				c.Undecided("internal", "analyser panic", fmt.Sprint(r))
			}
		}()
		fn(c)
		evalInlined(c, fn, repo, id, tier)
		if tier == "thorough" {
			// re-evaluate under other build configurations (build-tagged files, 32-bit ints)
			for _, cfg := range [][2]string{{"linux", "386"}, {"darwin", "arm64"}, {"windows", "amd64"}} {
				p2, err := fw.Load(fw.LoadOpts{Dir: repo, GOOS: cfg[0], GOARCH: cfg[1]})
				if err != nil {
					c.Undecided("load", "GOOS="+cfg[0]+" GOARCH="+cfg[1], err.Error())
					continue
				}
				c2 := fw.NewCtx(p2, id, tier)
				c2.Variant = cfg[0] + "/" + cfg[1]
				fn(c2)
				c.Merge(c2)
			}
		}
	}()
	return c.Finish(verif, seed, cmd)
}

// evalInlined evaluates the rules of one property on the inlined view of the repository
// (fw/inline.go) and folds the verdicts into c.
func evalInlined(c *fw.Ctx, fn func(*fw.Ctx), repo, id, tier string) {
	if os.Getenv("GMSL_NO_INLINE") != "" {
		return
	}
	inl, err := fw.Load(fw.LoadOpts{Dir: repo, Inline: true, KeepName: props.KeepName})
	if err != nil {
		c.Undecided("load", "inlined view", err.Error())
		return
	}
	c2 := fw.NewCtx(inl, id, tier)
	func() {
		defer func() {
			if r := recover(); r != nil {
				c2.Undecided("internal", "analyser panic on the inlined view", fmt.Sprint(r))
			}
		}()
		fn(c2)
	}()
	c.CombineViews(c2)
}
