// gmslverif: static verifier for the twenty properties of /verif/properties.jsonl.
package main

import (
	"flag"
	"fmt"
	"os"
	"path/filepath"
	"sort"
	"strconv"
	"strings"

	"gmslverif/fw"
	"gmslverif/props"
)

func usage() {
	fmt.Fprintln(os.Stderr, "usage: gmslverif check <Cnn> [--tier quick|thorough] [--repo dir] [--verif dir]\n       gmslverif list\n       gmslverif explain <replay.json>")
	os.Exit(2)
}

func main() {
	if len(os.Args) < 2 {
		usage()
	}
	switch os.Args[1] {
	case "list":
		ids := make([]string, 0, len(props.All))
		for id := range props.All {
			ids = append(ids, id)
		}
		sort.Strings(ids)
		for _, id := range ids {
			fmt.Println(id)
		}
	case "explain":
		if len(os.Args) < 3 {
			usage()
		}
		b, err := os.ReadFile(os.Args[2])
		if err != nil {
			fmt.Println(err)
			os.Exit(2)
		}
		fmt.Println(string(b))
	case "dump":
		// debugging aid: gmslverif dump <func spec> [--repo dir]
		if len(os.Args) < 3 {
			usage()
		}
		repo := envOr("GMSL_REPO", "/repo")
		if len(os.Args) >= 5 && os.Args[3] == "--repo" {
			repo = os.Args[4]
		}
		prog, err := fw.Load(fw.LoadOpts{Dir: repo})
		if err != nil {
			fmt.Println(err)
			os.Exit(2)
		}
		if os.Getenv("GMSL_INDEX") != "" {
			fw.DumpIndexSites(prog, os.Args[2])
		} else if os.Args[2] == "panics" {
			fw.DumpPanics(prog)
		} else if os.Getenv("GMSL_TABLE") != "" {
			fw.DumpTable(prog, os.Args[2], -1)
		} else {
			fw.DumpFunc(prog, os.Args[2])
		}
	case "check":
		if len(os.Args) < 3 {
			usage()
		}
		id := os.Args[2]
		fs := flag.NewFlagSet("check", flag.ExitOnError)
		tier := fs.String("tier", envOr("VERIF_TIER", "quick"), "quick|thorough")
		repo := fs.String("repo", envOr("GMSL_REPO", "/repo"), "repository directory")
		verif := fs.String("verif", envOr("GMSL_VERIF", defaultVerif()), "verif directory (evidence, out, known_findings.json)")
		_ = fs.Parse(os.Args[3:])
		if *tier != "quick" && *tier != "thorough" {
			*tier = "quick"
		}
		os.Exit(run(id, *tier, *repo, *verif))
	default:
		usage()
	}
}

func envOr(k, d string) string {
	if v := os.Getenv(k); v != "" {
		return v
	}
	return d
}

func defaultVerif() string {
	exe, err := os.Executable()
	if err == nil {
		d := filepath.Dir(filepath.Dir(exe))
		if _, err := os.Stat(filepath.Join(d, "properties.jsonl")); err == nil {
			return d
		}
	}
	return "/verif"
}

// runAll is a development aid for mutation sweeps: one load, every property, quick tier.
func runAll(repo, verif string) int {
	prog, err := fw.Load(fw.LoadOpts{Dir: repo})
	if err != nil {
		fmt.Println("UNDECIDED all: cannot load", err)
		return 1
	}
	ids := make([]string, 0, len(props.All))
	for id := range props.All {
		ids = append(ids, id)
	}
	sort.Strings(ids)
	rc := 0
	for _, id := range ids {
		c := fw.NewCtx(prog, id, "quick")
		func() {
			defer func() {
				if r := recover(); r != nil {
					c.Fail("internal", "analyser panic", "", fmt.Sprint(r))
				}
			}()
			props.All[id](c)
		}()
		r := c.Finish(verif, 0, "bin/gmslverif check all")
		fmt.Printf("--- %s exit=%d\n", id, r)
		if r != 0 {
			rc = 1
		}
	}
	return rc
}

func run(id, tier, repo, verif string) (code int) {
	if id == "all" {
		return runAll(repo, verif)
	}
	fn, ok := props.All[id]
	if !ok {
		fmt.Printf("unknown property %s\n", id)
		return 2
	}
	seed, _ := strconv.ParseInt(os.Getenv("VERIF_SEED"), 10, 64)
	cmd := "bin/gmslverif " + strings.Join(os.Args[1:], " ")
	fail := func(what string) int {
		// undecided at the loading stage: fails the check, with a replay file
		out := filepath.Join(verif, "out", id)
		_ = os.MkdirAll(out, 0o755)
		rp := filepath.Join(out, "load.json")
		_ = os.WriteFile(rp, []byte(fmt.Sprintf("{\"property\":%q,\"kind\":\"undecided\",\"detail\":%q}\n", id, what)), 0o644)
		fmt.Printf("UNDECIDED %s: %s\nVIOLATION property=%s replay=%s\n", id, what, id, rp)
		return 1
	}
	prog, err := fw.Load(fw.LoadOpts{Dir: repo})
	if err != nil {
		return fail("cannot load " + repo + ": " + err.Error())
	}
	c := fw.NewCtx(prog, id, tier)
	func() {
		defer func() {
			if r := recover(); r != nil {
				c.Fail("internal", "analyser panic", "", fmt.Sprint(r))
			}
		}()
		fn(c)
		if tier == "thorough" {
			// re-evaluate under other build configurations (build-tagged files, 32-bit ints)
			for _, cfg := range [][2]string{{"linux", "386"}, {"darwin", "arm64"}, {"windows", "amd64"}} {
				p2, err := fw.Load(fw.LoadOpts{Dir: repo, GOOS: cfg[0], GOARCH: cfg[1]})
				if err != nil {
					c.Undecided("load", "GOOS="+cfg[0]+" GOARCH="+cfg[1], err.Error())
					continue
				}
				c2 := fw.NewCtx(p2, id, tier)
				c2.Variant = cfg[0] + "/" + cfg[1]
				fn(c2)
				c.Merge(c2)
			}
		}
	}()
	return c.Finish(verif, seed, cmd)
}
